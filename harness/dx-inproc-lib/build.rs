fn main() {
    println!("cargo:rustc-cfg=frozenlib_derive_ex_verif");
    println!("cargo:rerun-if-changed=build.rs");
}
