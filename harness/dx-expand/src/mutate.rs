//! Corpus extraction and structure-aware mutation of derive_ex inputs (property C16).
use proc_macro2::TokenStream;
use quote::{quote, ToTokens};
use syn::visit::Visit;

pub struct Rng(pub u64);
impl Rng {
    pub fn next(&mut self) -> u64 {
        self.0 ^= self.0 << 13;
        self.0 ^= self.0 >> 7;
        self.0 ^= self.0 << 17;
        self.0
    }
    pub fn below(&mut self, n: usize) -> usize {
        if n == 0 {
            0
        } else {
            (self.next() % n as u64) as usize
        }
    }
}

/// (macro arguments, item without its first derive_ex attribute)
pub fn split_first_derive_ex(attrs: &mut Vec<syn::Attribute>) -> Option<TokenStream> {
    let pos = attrs.iter().position(|a| a.path().is_ident("derive_ex"))?;
    let a = attrs.remove(pos);
    match &a.meta {
        syn::Meta::List(l) => Some(l.tokens.clone()),
        syn::Meta::Path(_) => Some(TokenStream::new()),
        _ => None,
    }
}

struct Collector {
    out: Vec<(String, String)>,
}
impl<'ast> Visit<'ast> for Collector {
    fn visit_item(&mut self, i: &'ast syn::Item) {
        let mut it = i.clone();
        let attrs = match &mut it {
            syn::Item::Struct(s) => Some(&mut s.attrs),
            syn::Item::Enum(s) => Some(&mut s.attrs),
            syn::Item::Impl(s) => Some(&mut s.attrs),
            _ => None,
        };
        if let Some(attrs) = attrs {
            // drop #[derive(Ex)] style derives; keep everything else
            if let Some(args) = split_first_derive_ex(attrs) {
                attrs.retain(|a| !a.path().is_ident("derive"));
                self.out.push((args.to_string(), it.to_token_stream().to_string()));
            }
        }
        syn::visit::visit_item(self, i);
    }
}

pub fn corpus_of(src: &str) -> Vec<(String, String)> {
    let mut c = Collector { out: vec![] };
    if let Ok(f) = syn::parse_file(src) {
        c.visit_file(&f);
    }
    c.out
}

fn all_attr_slots(item: &mut syn::Item) -> Vec<&mut Vec<syn::Attribute>> {
    let mut v: Vec<&mut Vec<syn::Attribute>> = Vec::new();
    match item {
        syn::Item::Struct(s) => {
            v.push(&mut s.attrs);
            for f in s.fields.iter_mut() {
                v.push(&mut f.attrs);
            }
        }
        syn::Item::Enum(e) => {
            v.push(&mut e.attrs);
            for va in e.variants.iter_mut() {
                v.push(&mut va.attrs);
                for f in va.fields.iter_mut() {
                    v.push(&mut f.attrs);
                }
            }
        }
        syn::Item::Impl(i) => v.push(&mut i.attrs),
        _ => {}
    }
    v
}

fn mutate_args(args: &str, rng: &mut Rng) -> String {
    // arguments are a comma separated list at top level
    let ts: TokenStream = args.parse().unwrap_or_default();
    let mut parts: Vec<TokenStream> = Vec::new();
    let mut cur = TokenStream::new();
    for t in ts {
        if let proc_macro2::TokenTree::Punct(p) = &t {
            if p.as_char() == ',' {
                parts.push(std::mem::take(&mut cur));
                continue;
            }
        }
        cur.extend(std::iter::once(t));
    }
    if !cur.is_empty() {
        parts.push(cur);
    }
    let extra = ["Clone", "Copy", "Debug", "Default", "Ord", "PartialOrd", "Eq", "PartialEq", "Hash", "Deref", "DerefMut", "Add",
        "SubAssign", "Neg", "Not", "dump", "bound()", "bound(..)", "bound(T)", "Clone(dump)", "Debug(bound(T : Copy, ..))", "Foo", "AddAssign",
        "Index", "bound(T", "Clone()", "Default(bound())", "Hash(dump, bound(..))", "= 3", "Clone = 1",
        // names of every length and alphabet (they are looked up in tables, sliced for an `Assign` suffix, printed in messages)
        "Différence", "ÉcartAssign", "Übergröße", "añoAssign", "Assign", "A", "XAssign", "加Assign", "Add加", "ǅ", "r#Add", "r#type"];
    match rng.below(5) {
        0 if !parts.is_empty() => {
            let i = rng.below(parts.len());
            parts.remove(i);
        }
        1 if !parts.is_empty() => {
            let i = rng.below(parts.len());
            let p = parts[i].clone();
            parts.push(p);
        }
        2 if parts.len() > 1 => {
            let i = rng.below(parts.len());
            let j = rng.below(parts.len());
            parts.swap(i, j);
        }
        _ => {
            let e = extra[rng.below(extra.len())];
            if let Ok(t) = e.parse::<TokenStream>() {
                let at = rng.below(parts.len() + 1);
                parts.insert(at, t);
            } else {
                return format!("{}, {}", args, e);
            }
        }
    }
    parts.iter().map(|p| p.to_string()).collect::<Vec<_>>().join(", ")
}

fn parse_attr(s: &str) -> Option<syn::Attribute> {
    let f: syn::ItemStruct = syn::parse_str(&format!("{} struct S;", s)).ok()?;
    f.attrs.into_iter().next()
}

/// one mutation step on (args, item); returns None if the item cannot be parsed
pub fn mutate(args: &str, item_src: &str, donors: &[(String, String)], rng: &mut Rng) -> Option<(String, String)> {
    let mut item: syn::Item = syn::parse_str(item_src).ok()?;
    let mut args = args.to_string();
    let helper_pool = [
        "#[ord(ignore)]", "#[ord(reverse)]", "#[ord(key = $.len())]", "#[ord(by = |a, b| a.cmp(b))]", "#[partial_ord(reverse)]",
        "#[partial_ord(ignore)]", "#[eq(ignore)]", "#[eq(key = $.0)]", "#[partial_eq(by = |a, b| a == b)]", "#[partial_eq(ignore)]",
        "#[hash(ignore)]", "#[hash(key = $.1)]", "#[hash(by = |a, s| ())]", "#[debug(ignore)]", "#[debug(transparent)]", "#[debug(bound())]",
        "#[default]", "#[default(_)]", "#[default(5)]", "#[default(\"x\")]", "#[default(X::new(), bound(T))]", "#[derive_ex(Clone)]",
        "#[derive_ex(Debug(bound(..)), bound())]", "#[derive_ex(dump)]", "#[ord(bound(T : Ord))]", "#[ord = 3]", "#[debug]", "#[ord]",
        "#[ord(key = $)]", "#[ord(ignore, ignore)]", "#[ord(unknown)]", "#[default(1, 2)]", "#[repr(C)]", "#[doc = \"d\"]", "#[derive_ex(Foo)]",
        "#[derive_ex(Add)]", "#[eq(reverse)]", "#[debug(ignore, transparent)]", "#[derive_ex(Clone(bound(T : Clone)), Copy)]",
    ];
    match rng.below(14) {
        0 => args = mutate_args(&args, rng),
        12 | 13 => {
            // rename a field / variant / the type / a generic parameter to an unusual identifier
            let names = ["r#type", "r#match", "r#fn", "r#Self_", "_x", "__y", "self_", "this", "other", "state", "f", "rhs", "source", "lhs", "o",
                "to_index", "H", "T", "Eq", "Fn", "Option", "Some", "None", "Ordering", "é", "x1", "r#async", "r#dyn", "r#u8", "Self_", "core", "std"];
            let new = |rng: &mut Rng| -> syn::Ident {
                let n = names[rng.below(names.len())];
                if let Some(r) = n.strip_prefix("r#") {
                    syn::Ident::new_raw(r, proc_macro2::Span::call_site())
                } else {
                    syn::Ident::new(n, proc_macro2::Span::call_site())
                }
            };
            match &mut item {
                syn::Item::Struct(st) => match rng.below(3) {
                    0 => st.ident = new(rng),
                    1 => {
                        let n = st.fields.len();
                        if n > 0 {
                            let k = rng.below(n);
                            if let Some(f) = st.fields.iter_mut().nth(k) {
                                if f.ident.is_some() {
                                    f.ident = Some(new(rng));
                                }
                            }
                        }
                    }
                    _ => {
                        for p in st.generics.params.iter_mut() {
                            if let syn::GenericParam::Type(t) = p {
                                if rng.below(2) == 0 {
                                    t.ident = new(rng);
                                }
                            }
                        }
                    }
                },
                syn::Item::Impl(im) => {
                    // the trait name of an impl item goes through the operator table as well
                    if let Some((_, path, _)) = &mut im.trait_ {
                        if let Some(seg) = path.segments.last_mut() {
                            let pool = ["Différence", "ÉcartAssign", "Übergröße", "añoAssign", "Assign", "A", "XAssign", "加Assign", "Add加", "AddAssignAssign"];
                            seg.ident = syn::Ident::new(pool[rng.below(pool.len())], proc_macro2::Span::call_site());
                        }
                    }
                }
                syn::Item::Enum(en) => match rng.below(3) {
                    0 => en.ident = new(rng),
                    1 => {
                        let n = en.variants.len();
                        if n > 0 {
                            let k = rng.below(n);
                            if let Some(v) = en.variants.iter_mut().nth(k) {
                                v.ident = new(rng);
                            }
                        }
                    }
                    _ => {
                        for v in en.variants.iter_mut() {
                            for f in v.fields.iter_mut() {
                                if f.ident.is_some() && rng.below(2) == 0 {
                                    f.ident = Some(new(rng));
                                }
                            }
                        }
                    }
                },
                _ => {}
            }
        }
        1 | 2 | 3 => {
            // attribute level: delete / duplicate / swap / insert / move
            let mut slots = all_attr_slots(&mut item);
            if slots.is_empty() {
                return None;
            }
            let si = rng.below(slots.len());
            match rng.below(5) {
                0 if !slots[si].is_empty() => {
                    let i = rng.below(slots[si].len());
                    slots[si].remove(i);
                }
                1 if !slots[si].is_empty() => {
                    let i = rng.below(slots[si].len());
                    let a = slots[si][i].clone();
                    slots[si].push(a);
                }
                2 if slots[si].len() > 1 => {
                    let i = rng.below(slots[si].len());
                    let j = rng.below(slots[si].len());
                    slots[si].swap(i, j);
                }
                3 if !slots[si].is_empty() => {
                    let i = rng.below(slots[si].len());
                    let a = slots[si].remove(i);
                    let sj = rng.below(slots.len());
                    slots[sj].push(a);
                }
                _ => {
                    if let Some(a) = parse_attr(helper_pool[rng.below(helper_pool.len())]) {
                        let at = rng.below(slots[si].len() + 1);
                        slots[si].insert(at, a);
                    }
                }
            }
        }
        4 | 5 => {
            // field level
            let fields: Option<&mut syn::Fields> = match &mut item {
                syn::Item::Struct(s) => Some(&mut s.fields),
                syn::Item::Enum(e) => {
                    let n = e.variants.len();
                    if n == 0 {
                        None
                    } else {
                        let i = rng.below(n);
                        e.variants.iter_mut().nth(i).map(|v| &mut v.fields)
                    }
                }
                _ => None,
            };
            if let Some(fields) = fields {
                // give one field an unusual (but syntactically valid) type
                if rng.below(4) == 0 {
                    let n = fields.len();
                    if n > 0 {
                        let k = rng.below(n);
                        if let (Some(f), Some(t)) = (fields.iter_mut().nth(k), odd_type(rng)) {
                            f.ty = t;
                        }
                    }
                }
                let op = rng.below(4);
                match fields {
                    syn::Fields::Named(n) => edit_punct(&mut n.named, op, rng),
                    syn::Fields::Unnamed(n) => edit_punct(&mut n.unnamed, op, rng),
                    syn::Fields::Unit => {}
                }
                if rng.below(6) == 0 {
                    *fields = syn::Fields::Unit;
                }
            }
        }
        6 => {
            if let syn::Item::Enum(e) = &mut item {
                let op = rng.below(4);
                edit_punct(&mut e.variants, op, rng);
            }
        }
        7 if matches!(&item, syn::Item::Impl(_)) && rng.below(4) == 0 => {
            // impl items: an unusual self type (`for W<Self>`, `for &Self`, `for (u8, Self)`, a trait object ..)
            if let syn::Item::Impl(im) = &mut item {
                if let Some(t) = odd_type(rng) {
                    *im.self_ty = t;
                }
            }
        }
        7 if matches!(&item, syn::Item::Impl(_)) && rng.below(2) == 0 => {
            // impl items: edit the generic arguments of the trait path (`Add<X>` -> `Add<>`, `Add<X, X>`, ..) or drop them
            if let syn::Item::Impl(im) = &mut item {
                if let Some((_, path, _)) = &mut im.trait_ {
                    if let Some(seg) = path.segments.last_mut() {
                        match &mut seg.arguments {
                            syn::PathArguments::AngleBracketed(a) => {
                                if rng.below(3) == 0 {
                                    if let Some(t) = odd_type(rng) {
                                        a.args = syn::punctuated::Punctuated::new();
                                        a.args.push(syn::GenericArgument::Type(t));
                                    }
                                } else if rng.below(4) == 0 {
                                    seg.arguments = syn::PathArguments::None;
                                } else {
                                    let op = rng.below(3);
                                    edit_punct(&mut a.args, op, rng);
                                }
                            }
                            _ => {
                                if let Ok(a) = syn::parse_str::<syn::AngleBracketedGenericArguments>(["<>", "<Self>", "<&Self>", "<u8, u8>"][rng.below(4)]) {
                                    seg.arguments = syn::PathArguments::AngleBracketed(a);
                                }
                            }
                        }
                    }
                }
            }
        }
        7 => {
            let g: Option<&mut syn::Generics> = match &mut item {
                syn::Item::Struct(s) => Some(&mut s.generics),
                syn::Item::Enum(s) => Some(&mut s.generics),
                syn::Item::Impl(s) => Some(&mut s.generics),
                _ => None,
            };
            if let Some(g) = g {
                match rng.below(4) {
                    0 => {
                        let op = rng.below(3);
                        edit_punct(&mut g.params, op, rng);
                    }
                    1 => g.where_clause = None,
                    2 => g.where_clause = syn::parse_str("where Self : Sized, T : Copy").ok(),
                    _ => {
                        let extra = ["'a", "T", "const N : usize", "U : ?Sized", "T : Copy = u8", "H", "'b : 'a"];
                        if let Ok(p) = syn::parse_str::<syn::GenericParam>(extra[rng.below(extra.len())]) {
                            g.params.push(p);
                        }
                    }
                }
            }
        }
        8 | 9 => {
            // splice: take the attributes of a donor item's slots
            if !donors.is_empty() {
                let d = &donors[rng.below(donors.len())];
                if let Ok(mut di) = syn::parse_str::<syn::Item>(&d.1) {
                    let dslots: Vec<Vec<syn::Attribute>> = all_attr_slots(&mut di).into_iter().map(|v| v.clone()).collect();
                    let mut slots = all_attr_slots(&mut item);
                    for (k, s) in slots.iter_mut().enumerate() {
                        if rng.below(2) == 0 && !dslots.is_empty() {
                            s.extend(dslots[k % dslots.len()].iter().cloned());
                        }
                    }
                    if rng.below(3) == 0 {
                        args = d.0.clone();
                    }
                }
            }
        }
        10 => {
            // turn a struct into an enum with the same fields or the other way round
            let new: Option<syn::Item> = match &item {
                syn::Item::Struct(s) => {
                    let (attrs, vis, ident, g, fields) = (&s.attrs, &s.vis, &s.ident, &s.generics, &s.fields);
                    let w = &g.where_clause;
                    syn::parse2(quote!(#(#attrs)* #vis enum #ident #g #w { A #fields, B })).ok()
                }
                syn::Item::Enum(e) => {
                    let (attrs, vis, ident, g) = (&e.attrs, &e.vis, &e.ident, &e.generics);
                    let w = &g.where_clause;
                    match e.variants.first().map(|v| v.fields.clone()) {
                        Some(syn::Fields::Named(f)) => syn::parse2(quote!(#(#attrs)* #vis struct #ident #g #w #f)).ok(),
                        Some(syn::Fields::Unnamed(f)) => syn::parse2(quote!(#(#attrs)* #vis struct #ident #g #f #w ;)).ok(),
                        _ => syn::parse2(quote!(#(#attrs)* #vis struct #ident #g #w ;)).ok(),
                    }
                }
                _ => None,
            };
            if let Some(n) = new {
                item = n;
            }
        }
        _ => {
            // other item kinds
            let alt = ["union U { a : u8 }", "fn f() {}", "trait Tr {}", "impl X {}", "impl !Send for X {}", "type A = u8;", "mod m {}",
                "impl core::ops::Add<&X> for &X { type Output = X; fn add(self, r : &X) -> X { todo!() } }",
                "impl core::ops::AddAssign for X { fn add_assign(&mut self, r : X) {} }",
                "impl<T> core::ops::Sub<T> for X<T> where Self : Sized { fn sub(self, r : T) -> Self { self } }",
                "impl core::ops::Mul<> for X { type Output = X; fn mul(self, r : X) -> X { r } }",
                "impl core::ops::Shl<Self> for &X { type Output = X; fn shl(self, r : &X) -> X { todo!() } }",
                "impl core::ops::BitOr<Option<Self>> for X { type Output = Self; fn bitor(self, r : Option<X>) -> X { self } }"];
            if rng.below(3) == 0 {
                item = syn::parse_str(alt[rng.below(alt.len())]).ok()?;
            }
        }
    }
    Some((args, item.to_token_stream().to_string()))
}

/// syntactically valid types of every form the expander might have to print again
fn odd_type(rng: &mut Rng) -> Option<syn::Type> {
    let pool = ["dyn A + Send", "dyn A", "&'a (dyn A + Send)", "impl A + Send", "fn(u8) -> u8", "[u8]", "str", "(u8, Self)", "()", "!", "*const Self",
        "[T; N]", "[u8; { 1 + 2 }]", "<T as Tr>::A", "T::A", "::std::vec::Vec<T>", "m!()", "_", "&'static mut [Self]", "Box<dyn Fn(&T) -> T + Send + 'static>",
        "for<'x> fn(&'x u8) -> &'x u8", "(dyn A + Send)", "Option<Self>", "Buf<u8, 4>", "It<Item = u8>", "r#type", "Self", "&Self", "dyn for<'x> Tr<'x> + 'a",
        "W<Self>", "(Self,)", "dyn Tr + 'a", "dyn Tr + 'static", "&'a mut Self", "Box<W<Self>>"];
    syn::parse_str::<syn::Type>(pool[rng.below(pool.len())]).ok()
}

fn edit_punct<T: Clone, P: Default>(p: &mut syn::punctuated::Punctuated<T, P>, op: usize, rng: &mut Rng) {
    let mut v: Vec<T> = p.iter().cloned().collect();
    match op {
        0 if !v.is_empty() => {
            let i = rng.below(v.len());
            v.remove(i);
        }
        1 if !v.is_empty() => {
            let i = rng.below(v.len());
            let x = v[i].clone();
            v.push(x);
        }
        2 if v.len() > 1 => {
            let i = rng.below(v.len());
            let j = rng.below(v.len());
            v.swap(i, j);
        }
        3 => v.clear(),
        _ => {}
    }
    let mut np = syn::punctuated::Punctuated::new();
    for x in v {
        np.push(x);
    }
    *p = np;
}
