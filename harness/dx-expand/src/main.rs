//! dx-expand: in-process observer of the real derive-ex expander.
//!
//! Reads ndjson requests on stdin, writes one ndjson response per request on stdout
//! (same order).  It contains NO expectation about what the expander should do: it runs the
//! real `derive_ex::verif_hooks::{expand_attr, expand_derive}` and projects the resulting
//! token stream into a small, refactoring-proof vocabulary:
//!
//!   * per output item: kind (impl / compile_error / const / struct / enum / other)
//!   * for impls: trait path, trait generic args, self type, `where` clause as a *set* of
//!     normalised `Type : Bound` atoms, hash of the whole impl
//!   * for compile_error!: the message
//!
//! Request kinds
//!   {"k":"expand","id":..,"entry":"attr"|"derive","attr":"..","item":"..","tokens":bool,"twice":bool}
//!   {"k":"tokens","id":..,"src":".."}            -> normalised token string of src
//!   {"k":"atoms","id":..,"src":"where .."}       -> where-clause atoms of src
//!   {"k":"items","id":..,"src":".."}             -> projection of an arbitrary file (same as expand's)
mod mutate;
use proc_macro2::TokenStream;
use quote::ToTokens;
use rayon::prelude::*;
use serde_json::{json, Value};
use std::collections::hash_map::DefaultHasher;
use std::hash::{Hash, Hasher};
use std::io::{BufRead, Write};
use std::str::FromStr;

fn h(s: &str) -> String {
    let mut d = DefaultHasher::new();
    s.hash(&mut d);
    format!("{:016x}", d.finish())
}

fn ts(x: &impl ToTokens) -> String {
    x.to_token_stream().to_string()
}

/// token sequence with punctuation spacing erased: one entry per atomic token
fn flat(t: TokenStream, out: &mut Vec<String>) {
    for tt in t {
        match tt {
            proc_macro2::TokenTree::Group(g) => {
                let (o, c) = match g.delimiter() {
                    proc_macro2::Delimiter::Parenthesis => ("(", ")"),
                    proc_macro2::Delimiter::Brace => ("{", "}"),
                    proc_macro2::Delimiter::Bracket => ("[", "]"),
                    proc_macro2::Delimiter::None => ("", ""),
                };
                out.push(o.to_string());
                flat(g.stream(), out);
                out.push(c.to_string());
            }
            proc_macro2::TokenTree::Punct(p) => out.push(p.as_char().to_string()),
            other => out.push(other.to_string()),
        }
    }
}

/// consistent renaming of identifiers (and lifetimes, keys starting with ') in a token stream
fn rename(t: TokenStream, map: &std::collections::HashMap<String, String>) -> TokenStream {
    let mut out = TokenStream::new();
    let mut after_tick = false;
    for tt in t {
        match tt {
            proc_macro2::TokenTree::Group(g) => {
                let mut ng = proc_macro2::Group::new(g.delimiter(), rename(g.stream(), map));
                ng.set_span(g.span());
                out.extend(std::iter::once(proc_macro2::TokenTree::Group(ng)));
                after_tick = false;
            }
            proc_macro2::TokenTree::Ident(i) => {
                let name = i.to_string();
                let key = if after_tick { format!("'{}", name) } else { name.clone() };
                let new = match map.get(&key) {
                    Some(n) => {
                        let n = n.trim_start_matches('\'');
                        if let Some(r) = n.strip_prefix("r#") {
                            proc_macro2::Ident::new_raw(r, i.span())
                        } else {
                            proc_macro2::Ident::new(n, i.span())
                        }
                    }
                    None => i,
                };
                out.extend(std::iter::once(proc_macro2::TokenTree::Ident(new)));
                after_tick = false;
            }
            proc_macro2::TokenTree::Punct(p) => {
                after_tick = p.as_char() == '\'' && p.spacing() == proc_macro2::Spacing::Joint;
                out.extend(std::iter::once(proc_macro2::TokenTree::Punct(p)));
            }
            other => {
                out.extend(std::iter::once(other));
                after_tick = false;
            }
        }
    }
    out
}

fn atoms_of(w: Option<&syn::WhereClause>) -> Vec<String> {
    let mut out = Vec::new();
    if let Some(w) = w {
        for p in &w.predicates {
            match p {
                syn::WherePredicate::Type(pt) => {
                    let pre = match &pt.lifetimes {
                        Some(l) => format!("{} ", ts(l)),
                        None => String::new(),
                    };
                    let ty = ts(&pt.bounded_ty);
                    if pt.bounds.is_empty() {
                        out.push(format!("{pre}{ty} :"));
                    }
                    for b in &pt.bounds {
                        out.push(format!("{pre}{ty} : {}", ts(b)));
                    }
                }
                syn::WherePredicate::Lifetime(pl) => {
                    if pl.bounds.is_empty() {
                        out.push(format!("{} :", ts(&pl.lifetime)));
                    }
                    for b in &pl.bounds {
                        out.push(format!("{} : {}", ts(&pl.lifetime), ts(b)));
                    }
                }
                _ => out.push(ts(p)),
            }
        }
    }
    out
}

fn lit_str_of(tokens: &TokenStream) -> Option<String> {
    syn::parse2::<syn::LitStr>(tokens.clone()).ok().map(|l| l.value())
}

/// attributes at every position of a struct / enum (type, variants, fields) as token strings, and the
/// item with every attribute removed ("skeleton")
fn attrs_tree(it: &syn::Item) -> Option<(Vec<Vec<String>>, String)> {
    fn strs(a: &[syn::Attribute]) -> Vec<String> {
        a.iter().map(ts).collect()
    }
    let mut pos: Vec<Vec<String>> = Vec::new();
    match it {
        syn::Item::Struct(s) => {
            let mut s = s.clone();
            pos.push(strs(&s.attrs));
            s.attrs.clear();
            for f in s.fields.iter_mut() {
                pos.push(strs(&f.attrs));
                f.attrs.clear();
            }
            Some((pos, ts(&s)))
        }
        syn::Item::Enum(e) => {
            let mut e = e.clone();
            pos.push(strs(&e.attrs));
            e.attrs.clear();
            for v in e.variants.iter_mut() {
                pos.push(strs(&v.attrs));
                v.attrs.clear();
                for f in v.fields.iter_mut() {
                    pos.push(strs(&f.attrs));
                    f.attrs.clear();
                }
            }
            Some((pos, ts(&e)))
        }
        _ => None,
    }
}

fn project_item(it: &syn::Item, want_tokens: bool) -> Value {
    let tokens = ts(it);
    let mut v = match it {
        syn::Item::Impl(i) => {
            let (tr, targs, neg) = match &i.trait_ {
                Some((bang, path, _)) => {
                    let mut p = path.clone();
                    let mut args = String::new();
                    if let Some(last) = p.segments.last_mut() {
                        if let syn::PathArguments::AngleBracketed(a) = &last.arguments {
                            args = ts(&a.args);
                        }
                        last.arguments = syn::PathArguments::None;
                    }
                    (ts(&p).replace(' ', ""), args, bang.is_some())
                }
                None => (String::new(), String::new(), false),
            };
            let fns: Vec<String> = i
                .items
                .iter()
                .filter_map(|x| match x {
                    syn::ImplItem::Fn(f) => Some(f.sig.ident.to_string()),
                    _ => None,
                })
                .collect();
            let assoc: Vec<Value> = i
                .items
                .iter()
                .filter_map(|x| match x {
                    syn::ImplItem::Type(t) => Some(json!([t.ident.to_string(), ts(&t.ty)])),
                    _ => None,
                })
                .collect();
            let sigs: Vec<String> = i
                .items
                .iter()
                .filter_map(|x| match x {
                    syn::ImplItem::Fn(f) => Some(ts(&f.sig)),
                    _ => None,
                })
                .collect();
            let attrs: Vec<String> = i.attrs.iter().map(ts).collect();
            json!({
                "kind": "impl",
                "trait": tr,
                "trait_args": targs,
                "negative": neg,
                "self_ty": ts(&i.self_ty),
                "generics": ts(&i.generics.params),
                "where": atoms_of(i.generics.where_clause.as_ref()),
                "fns": fns,
                "sigs": sigs,
                "assoc": assoc,
                "attrs": attrs,
            })
        }
        syn::Item::Macro(m) => {
            let p = ts(&m.mac.path).replace(' ', "");
            if p == "::core::compile_error" || p == "compile_error" || p == "core::compile_error" {
                json!({"kind": "compile_error", "msg": lit_str_of(&m.mac.tokens)})
            } else {
                json!({"kind": "macro", "path": p})
            }
        }
        syn::Item::Const(c) => json!({"kind": "const", "name": c.ident.to_string()}),
        syn::Item::Struct(s) => json!({"kind": "struct", "name": s.ident.to_string()}),
        syn::Item::Enum(s) => json!({"kind": "enum", "name": s.ident.to_string()}),
        syn::Item::Fn(s) => json!({"kind": "fn", "name": s.sig.ident.to_string()}),
        _ => json!({"kind": "other"}),
    };
    v["hash"] = json!(h(&tokens));
    if let Some((pos, skel)) = attrs_tree(it) {
        v["attr_pos"] = json!(pos);
        v["skeleton"] = json!(h(&skel));
    }
    if want_tokens {
        v["tokens"] = json!(tokens);
    }
    v
}

fn project_file(out: &TokenStream, want_tokens: bool) -> (bool, Vec<Value>) {
    match syn::parse2::<syn::File>(out.clone()) {
        Ok(f) => (true, f.items.iter().map(|i| project_item(i, want_tokens)).collect()),
        Err(_) => (false, vec![]),
    }
}

fn run_expand(entry: &str, attr: &str, item: &str) -> Result<TokenStream, String> {
    let item_ts = TokenStream::from_str(item).map_err(|e| format!("lex item: {e}"))?;
    match entry {
        "attr" => {
            let attr_ts = TokenStream::from_str(attr).map_err(|e| format!("lex attr: {e}"))?;
            Ok(derive_ex::verif_hooks::expand_attr(attr_ts, item_ts))
        }
        "derive" => Ok(derive_ex::verif_hooks::expand_derive(item_ts)),
        _ => Err(format!("bad entry {entry}")),
    }
}

fn handle(line: &str) -> Value {
    let req: Value = match serde_json::from_str(line) {
        Ok(v) => v,
        Err(e) => return json!({"tool_error": format!("bad request json: {e}")}),
    };
    let id = req["id"].clone();
    let k = req["k"].as_str().unwrap_or("expand");
    match k {
        "tokens" => {
            let src = req["src"].as_str().unwrap_or("");
            match TokenStream::from_str(src) {
                Ok(t) => {
                    let mut f = Vec::new();
                    flat(t.clone(), &mut f);
                    json!({"id": id, "tokens": t.to_string(), "hash": h(&t.to_string()), "flat": h(&f.join(" "))})
                }
                Err(e) => json!({"id": id, "lex_error": e.to_string()}),
            }
        }
        "atoms" => {
            let src = req["src"].as_str().unwrap_or("");
            if src.trim().is_empty() {
                return json!({"id": id, "atoms": []});
            }
            match syn::parse_str::<syn::WhereClause>(src) {
                Ok(w) => json!({"id": id, "atoms": atoms_of(Some(&w))}),
                Err(e) => json!({"id": id, "parse_error": e.to_string()}),
            }
        }
        "rename" => {
            // {"k":"rename","src":..,"map":{"T":"Option","'l":"'a",..}}
            let src = req["src"].as_str().unwrap_or("");
            let mut map = std::collections::HashMap::new();
            if let Some(m) = req["map"].as_object() {
                for (k, v) in m {
                    map.insert(k.clone(), v.as_str().unwrap_or("").to_string());
                }
            }
            match TokenStream::from_str(src) {
                Ok(t) => json!({"id": id, "src": rename(t, &map).to_string()}),
                Err(e) => json!({"id": id, "lex_error": e.to_string()}),
            }
        }
        "corpus" => {
            // {"k":"corpus","path":..} or {"k":"corpus","src":..}: every struct/enum/impl carrying #[derive_ex(..)]
            let src = match req["path"].as_str() {
                Some(p) => std::fs::read_to_string(p).unwrap_or_default(),
                None => req["src"].as_str().unwrap_or("").to_string(),
            };
            let c = mutate::corpus_of(&src);
            json!({"id": id, "corpus": c.iter().map(|(a, i)| json!({"attr": a, "item": i})).collect::<Vec<_>>()})
        }
        "mutate" => {
            // {"k":"mutate","attr":..,"item":..,"seed":..,"steps":..,"donors":[{attr,item}..]}
            let attr = req["attr"].as_str().unwrap_or("").to_string();
            let item = req["item"].as_str().unwrap_or("").to_string();
            let seed = req["seed"].as_u64().unwrap_or(1) | 1;
            let steps = req["steps"].as_u64().unwrap_or(1) as usize;
            let donors: Vec<(String, String)> = req["donors"].as_array().map(|a| a.iter().map(|d| (d["attr"].as_str().unwrap_or("").to_string(), d["item"].as_str().unwrap_or("").to_string())).collect()).unwrap_or_default();
            let mut rng = mutate::Rng(seed.wrapping_mul(0x9E3779B97F4A7C15) | 1);
            let (mut a, mut i) = (attr, item);
            for _ in 0..steps {
                if let Some((na, ni)) = mutate::mutate(&a, &i, &donors, &mut rng) {
                    a = na;
                    i = ni;
                }
            }
            json!({"id": id, "attr": a, "item": i})
        }
        "items" => {
            let src = req["src"].as_str().unwrap_or("");
            let want = req["tokens"].as_bool().unwrap_or(false);
            match TokenStream::from_str(src) {
                Ok(t) => {
                    let (ok, items) = project_file(&t, want);
                    json!({"id": id, "parse_ok": ok, "items": items})
                }
                Err(e) => json!({"id": id, "lex_error": e.to_string()}),
            }
        }
        _ => {
            let entry = req["entry"].as_str().unwrap_or("attr").to_string();
            let attr = req["attr"].as_str().unwrap_or("").to_string();
            let item = req["item"].as_str().unwrap_or("").to_string();
            let want = req["tokens"].as_bool().unwrap_or(false);
            let twice = req["twice"].as_bool().unwrap_or(false);
            let want_out = req["out"].as_bool().unwrap_or(false);
            let r = std::panic::catch_unwind(|| run_expand(&entry, &attr, &item));
            match r {
                Err(p) => {
                    let msg = if let Some(s) = p.downcast_ref::<&str>() {
                        s.to_string()
                    } else if let Some(s) = p.downcast_ref::<String>() {
                        s.clone()
                    } else {
                        "panic".to_string()
                    };
                    json!({"id": id, "class": "panic", "panic": msg})
                }
                Ok(Err(e)) => json!({"id": id, "class": "unlexable", "error": e}),
                Ok(Ok(out)) => {
                    let s = out.to_string();
                    let mut det = true;
                    let mut h2 = String::new();
                    if twice {
                        let r2 = std::panic::catch_unwind(|| run_expand(&entry, &attr, &item));
                        match r2 {
                            Ok(Ok(o2)) => {
                                let s2 = o2.to_string();
                                det = s2 == s;
                                h2 = h(&s2);
                            }
                            _ => det = false,
                        }
                    }
                    let (ok, items) = project_file(&out, want);
                    let n_err = items.iter().filter(|i| i["kind"] == "compile_error").count();
                    let mut v = json!({
                        "id": id,
                        "class": if !ok {"unparsable"} else if n_err > 0 {"compile_error"} else {"items"},
                        "parse_ok": ok,
                        "out_hash": h(&s),
                        "out_hash2": h2,
                        "det": det,
                        "items": items,
                    });
                    if want_out {
                        v["out"] = json!(s);
                    }
                    v
                }
            }
        }
    }
}

fn main() {
    std::panic::set_hook(Box::new(|_| {}));
    let stdin = std::io::stdin();
    let lines: Vec<String> = stdin.lock().lines().map(|l| l.unwrap()).filter(|l| !l.trim().is_empty()).collect();
    let threads = std::env::var("DX_THREADS").ok().and_then(|s| s.parse().ok()).unwrap_or(16usize);
    let limit_ms: u64 = std::env::var("DX_EXPAND_TIMEOUT_MS").ok().and_then(|s| s.parse().ok()).unwrap_or(20_000);
    rayon::ThreadPoolBuilder::new().num_threads(threads).stack_size(64 << 20).build_global().unwrap();
    // Expansion must terminate (C16): every request runs under a watchdog.  A request that is still running after
    // `limit_ms` while nothing else makes progress is answered with class "timeout" and the process ends.
    use std::sync::atomic::{AtomicU64, AtomicUsize, Ordering};
    use std::sync::{Arc, Mutex};
    let n = lines.len();
    let lines = Arc::new(lines);
    let results: Arc<Vec<Mutex<Option<String>>>> = Arc::new((0..n).map(|_| Mutex::new(None)).collect());
    let started: Arc<Vec<AtomicU64>> = Arc::new((0..n).map(|_| AtomicU64::new(0)).collect());
    let done = Arc::new(AtomicUsize::new(0));
    let t0 = std::time::Instant::now();
    {
        let (lines, results, started, done) = (lines.clone(), results.clone(), started.clone(), done.clone());
        std::thread::spawn(move || {
            lines.par_iter().enumerate().for_each(|(i, l)| {
                started[i].store(t0.elapsed().as_millis() as u64 + 1, Ordering::SeqCst);
                let r = handle(l).to_string();
                *results[i].lock().unwrap() = Some(r);
                done.fetch_add(1, Ordering::SeqCst);
            });
        });
    }
    let mut last_done = 0usize;
    let mut last_change = std::time::Instant::now();
    loop {
        std::thread::sleep(std::time::Duration::from_millis(20));
        let d = done.load(Ordering::SeqCst);
        if d == n {
            break;
        }
        if d != last_done {
            last_done = d;
            last_change = std::time::Instant::now();
        }
        let now = t0.elapsed().as_millis() as u64 + 1;
        let stuck = (0..n).any(|i| {
            let s = started[i].load(Ordering::SeqCst);
            s > 0 && now.saturating_sub(s) > limit_ms && results[i].lock().unwrap().is_none()
        });
        if stuck && last_change.elapsed().as_millis() as u64 > limit_ms.min(3_000) {
            break;
        }
    }
    let stdout = std::io::stdout();
    let mut w = std::io::BufWriter::new(stdout.lock());
    for i in 0..n {
        let o = match results[i].lock().unwrap().take() {
            Some(o) => o,
            None => {
                let id = serde_json::from_str::<serde_json::Value>(&lines[i]).ok().and_then(|v| v.get("id").cloned()).unwrap_or(serde_json::Value::Null);
                let class = if started[i].load(Ordering::SeqCst) > 0 { "timeout" } else { "not_run" };
                serde_json::json!({"id": id, "class": class, "items": [], "det": serde_json::Value::Null}).to_string()
            }
        };
        w.write_all(o.as_bytes()).unwrap();
        w.write_all(b"\n").unwrap();
    }
    w.flush().unwrap();
    drop(w);
    std::process::exit(0);
}
