//! dx-support: instrumented field / key types and recording helpers that generated test
//! programs link against.  Nothing in here knows what derive-ex is supposed to do; these are
//! "user types" whose trait impls record what the derived code calls on them.
#![allow(clippy::all)]
use std::cell::RefCell;
use std::cmp::Ordering;
use std::fmt::Write as _;
use std::hash::{Hash, Hasher};

// ---------------------------------------------------------------------------------------------
// call log (thread local)
// ---------------------------------------------------------------------------------------------
thread_local! {
    static LOG: RefCell<Vec<String>> = RefCell::new(Vec::new());
}
pub fn log(s: String) {
    LOG.with(|l| l.borrow_mut().push(s));
}
pub fn take_log() -> Vec<String> {
    LOG.with(|l| std::mem::take(&mut *l.borrow_mut()))
}
pub fn json_strs(v: &[String]) -> String {
    let mut s = String::from("[");
    for (i, x) in v.iter().enumerate() {
        if i > 0 {
            s.push(',');
        }
        s.push('"');
        for c in x.chars() {
            match c {
                '"' => s.push_str("\\\""),
                '\\' => s.push_str("\\\\"),
                '\n' => s.push_str("\\n"),
                c => s.push(c),
            }
        }
        s.push('"');
    }
    s.push(']');
    s
}
pub fn json_str(x: &str) -> String {
    let v = vec![x.to_string()];
    let s = json_strs(&v);
    // strip the brackets and the quotes: the escaped content only
    s[2..s.len() - 2].to_string()
}

// ---------------------------------------------------------------------------------------------
// V: totally ordered small value, hashes as (100, v)
// ---------------------------------------------------------------------------------------------
#[derive(Clone, Copy, Debug, PartialEq, Eq, PartialOrd, Ord, Default)]
pub struct V(pub u8);
impl Hash for V {
    fn hash<H: Hasher>(&self, state: &mut H) {
        state.write_u8(100);
        state.write_u8(self.0);
    }
}

// ---------------------------------------------------------------------------------------------
// K: result of a `key = ...` expression.  K(rank, k): compares by k, hashes as (110 + rank, k)
// ---------------------------------------------------------------------------------------------
#[derive(Clone, Copy, Debug)]
pub struct K(pub u8, pub u8);
impl PartialEq for K {
    fn eq(&self, o: &K) -> bool {
        self.1 == o.1
    }
}
impl Eq for K {}
impl PartialOrd for K {
    fn partial_cmp(&self, o: &K) -> Option<Ordering> {
        Some(self.1.cmp(&o.1))
    }
}
impl Ord for K {
    fn cmp(&self, o: &K) -> Ordering {
        self.1.cmp(&o.1)
    }
}
impl Hash for K {
    fn hash<H: Hasher>(&self, state: &mut H) {
        state.write_u8(110 + self.0);
        state.write_u8(self.1);
    }
}
/// what a `hash(by = ..)` closure writes
pub fn hash_by<H: Hasher>(state: &mut H, k: u8) {
    state.write_u8(120);
    state.write_u8(k);
}

// ---------------------------------------------------------------------------------------------
// NE / KN: PartialEq-only (float-like) field and key types for the Eq-refusal property
// ---------------------------------------------------------------------------------------------
#[derive(Clone, Copy, Debug, PartialEq, PartialOrd, Default)]
pub struct NE(pub u8);
impl Hash for NE {
    fn hash<H: Hasher>(&self, state: &mut H) {
        state.write_u8(101);
        state.write_u8(self.0);
    }
}
#[derive(Clone, Copy, Debug, PartialEq, PartialOrd)]
pub struct KN(pub u8, pub u8);
impl Hash for KN {
    fn hash<H: Hasher>(&self, state: &mut H) {
        state.write_u8(130 + self.0);
        state.write_u8(self.1);
    }
}

// ---------------------------------------------------------------------------------------------
// PV: partially ordered value: 7 is NaN-like (unequal to itself, incomparable)
// ---------------------------------------------------------------------------------------------
#[derive(Clone, Copy, Debug, Default)]
pub struct PV(pub u8);
impl PartialEq for PV {
    fn eq(&self, o: &PV) -> bool {
        self.0 != 7 && o.0 != 7 && self.0 == o.0
    }
}
impl PartialOrd for PV {
    fn partial_cmp(&self, o: &PV) -> Option<Ordering> {
        if self.0 == 7 || o.0 == 7 {
            None
        } else {
            Some(self.0.cmp(&o.0))
        }
    }
}

// ---------------------------------------------------------------------------------------------
// Recording hasher
// ---------------------------------------------------------------------------------------------
#[derive(Default)]
pub struct Rec(pub Vec<u8>);
impl Hasher for Rec {
    fn finish(&self) -> u64 {
        0
    }
    fn write(&mut self, bytes: &[u8]) {
        self.0.extend_from_slice(bytes);
    }
}
pub fn feed_of<T: Hash + ?Sized>(x: &T) -> Vec<u8> {
    let mut r = Rec::default();
    x.hash(&mut r);
    r.0
}

// ---------------------------------------------------------------------------------------------
// Table printers.  A panic inside the derived code is data: it is caught and encoded as 9.
// ---------------------------------------------------------------------------------------------
fn catch<R>(f: impl FnOnce() -> R) -> Option<R> {
    std::panic::catch_unwind(std::panic::AssertUnwindSafe(f)).ok()
}
pub fn ord_code(o: Ordering) -> i32 {
    match o {
        Ordering::Less => -1,
        Ordering::Equal => 0,
        Ordering::Greater => 1,
    }
}
fn table<T>(vals: &[T], f: impl Fn(&T, &T) -> i32) -> String {
    let mut s = String::from("[");
    for (i, a) in vals.iter().enumerate() {
        if i > 0 {
            s.push(',');
        }
        s.push('[');
        for (j, b) in vals.iter().enumerate() {
            if j > 0 {
                s.push(',');
            }
            let r = catch(|| f(a, b)).unwrap_or(9);
            write!(s, "{}", r).unwrap();
        }
        s.push(']');
    }
    s.push(']');
    s
}
pub fn table_eq<T: PartialEq>(vals: &[T]) -> String {
    table(vals, |a, b| if a == b { 1 } else { 0 })
}
pub fn table_ne<T: PartialEq>(vals: &[T]) -> String {
    table(vals, |a, b| if a != b { 1 } else { 0 })
}
pub fn table_pcmp<T: PartialOrd>(vals: &[T]) -> String {
    table(vals, |a, b| match a.partial_cmp(b) {
        None => 2,
        Some(o) => ord_code(o),
    })
}
pub fn table_cmp<T: Ord>(vals: &[T]) -> String {
    table(vals, |a, b| ord_code(a.cmp(b)))
}
/// the four derived comparison operators of PartialOrd, packed: lt | le<<1 | gt<<2 | ge<<3
pub fn table_ops<T: PartialOrd>(vals: &[T]) -> String {
    table(vals, |a, b| (a < b) as i32 | ((a <= b) as i32) << 1 | ((a > b) as i32) << 2 | ((a >= b) as i32) << 3)
}
pub fn feeds<T: Hash>(vals: &[T]) -> String {
    let mut s = String::from("[");
    for (i, a) in vals.iter().enumerate() {
        if i > 0 {
            s.push(',');
        }
        match catch(|| feed_of(a)) {
            Some(f) => {
                s.push('[');
                for (j, b) in f.iter().enumerate() {
                    if j > 0 {
                        s.push(',');
                    }
                    write!(s, "{}", b).unwrap();
                }
                s.push(']');
            }
            None => s.push_str("[999]"),
        }
    }
    s.push(']');
    s
}
pub fn quiet_panics() {
    std::panic::set_hook(Box::new(|_| {}));
}

// ---------------------------------------------------------------------------------------------
// Model-free law checks (property C02): evaluated directly on the real impls.
// Return -1 if the law holds on every pair / triple, else the flat index of the first witness.
// ---------------------------------------------------------------------------------------------
fn first_pair<T>(vals: &[T], bad: impl Fn(&T, &T) -> bool) -> i64 {
    let n = vals.len();
    for i in 0..n {
        for j in 0..n {
            if catch(|| bad(&vals[i], &vals[j])).unwrap_or(true) {
                return (i * n + j) as i64;
            }
        }
    }
    -1
}
fn first_triple<T>(vals: &[T], bad: impl Fn(&T, &T, &T) -> bool) -> i64 {
    let n = vals.len();
    for i in 0..n {
        for j in 0..n {
            for k in 0..n {
                if catch(|| bad(&vals[i], &vals[j], &vals[k])).unwrap_or(true) {
                    return ((i * n + j) * n + k) as i64;
                }
            }
        }
    }
    -1
}
pub fn law_eq_pord<T: PartialEq + PartialOrd>(v: &[T]) -> i64 {
    first_pair(v, |a, b| (a == b) != (a.partial_cmp(b) == Some(Ordering::Equal)))
}
pub fn law_eq_ord<T: PartialEq + Ord>(v: &[T]) -> i64 {
    first_pair(v, |a, b| (a == b) != (a.cmp(b) == Ordering::Equal))
}
pub fn law_pord_ord<T: PartialOrd + Ord>(v: &[T]) -> i64 {
    first_pair(v, |a, b| a.partial_cmp(b) != Some(a.cmp(b)))
}
pub fn law_eq_hash<T: PartialEq + Hash>(v: &[T]) -> i64 {
    first_pair(v, |a, b| a == b && feed_of(a) != feed_of(b))
}
pub fn law_eq_equiv<T: PartialEq>(v: &[T]) -> i64 {
    let r = first_pair(v, |a, b| (a == b) != (b == a) || (a != b) == (a == b));
    if r >= 0 {
        return r;
    }
    let r = first_pair(v, |a, _| !(a == a));
    if r >= 0 {
        return r;
    }
    first_triple(v, |a, b, c| a == b && b == c && !(a == c))
}
pub fn law_ord_total<T: Ord>(v: &[T]) -> i64 {
    let r = first_pair(v, |a, b| a.cmp(b) != b.cmp(a).reverse());
    if r >= 0 {
        return r;
    }
    first_triple(v, |a, b, c| a.cmp(b) != Ordering::Greater && b.cmp(c) != Ordering::Greater && a.cmp(c) == Ordering::Greater)
}

// ---------------------------------------------------------------------------------------------
// Generic user-side pieces for the bounds family: they make no demands on the field type, so the
// only bounds a generated impl needs are the ones derive-ex itself decides to emit.
// ---------------------------------------------------------------------------------------------
pub trait Tr {
    type Assoc;
}
pub fn make<T>() -> T {
    unreachable!()
}
pub fn key_of<T: ?Sized>(rank: u8, _x: &T) -> K {
    K(rank, 0)
}
pub fn by_ord<T: ?Sized>(_a: &T, _b: &T) -> Ordering {
    Ordering::Equal
}
pub fn by_pord<T: ?Sized>(_a: &T, _b: &T) -> Option<Ordering> {
    Some(Ordering::Equal)
}
pub fn by_eq<T: ?Sized>(_a: &T, _b: &T) -> bool {
    true
}
pub fn by_hash<T: ?Sized, H: Hasher>(_a: &T, _s: &mut H) {}

// ---------------------------------------------------------------------------------------------
// CF: clone-recording field.  CF(tag, val): tag = the position the driver put it in.
// ---------------------------------------------------------------------------------------------
#[derive(Debug, PartialEq, Eq, PartialOrd, Ord, Hash)]
pub struct CF(pub u8, pub u8);
impl Clone for CF {
    fn clone(&self) -> Self {
        log(format!("clone:{}:{}", self.0, self.1));
        CF(self.0, self.1)
    }
    fn clone_from(&mut self, source: &Self) {
        log(format!("clone_from:{}:{}:{}:{}", self.0, self.1, source.0, source.1));
        self.0 = source.0;
        self.1 = source.1;
    }
}

// ---------------------------------------------------------------------------------------------
// Tm: free term algebra.  Every operator application builds the term and logs the call with the
// reference form it was called in (v = by value, r = by reference).
// ---------------------------------------------------------------------------------------------
#[derive(Clone, Debug, PartialEq, Eq)]
pub struct Tm(pub String);
impl Default for Tm {
    fn default() -> Self {
        Tm("default()".to_string())
    }
}
impl Default for Tc {
    fn default() -> Self {
        tc("default()")
    }
}
pub fn tm(s: &str) -> Tm {
    Tm(s.to_string())
}
macro_rules! tm_binop {
    ($tr:ident, $f:ident, $tra:ident, $fa:ident, $name:expr) => {
        impl ::core::ops::$tr<Tm> for Tm {
            type Output = Tm;
            fn $f(self, r: Tm) -> Tm {
                log(format!("{}:vv:{}:{}", $name, self.0, r.0));
                Tm(format!("{}({},{})", $name, self.0, r.0))
            }
        }
        impl<'a> ::core::ops::$tr<&'a Tm> for Tm {
            type Output = Tm;
            fn $f(self, r: &'a Tm) -> Tm {
                log(format!("{}:vr:{}:{}", $name, self.0, r.0));
                Tm(format!("{}({},{})", $name, self.0, r.0))
            }
        }
        impl<'a> ::core::ops::$tr<Tm> for &'a Tm {
            type Output = Tm;
            fn $f(self, r: Tm) -> Tm {
                log(format!("{}:rv:{}:{}", $name, self.0, r.0));
                Tm(format!("{}({},{})", $name, self.0, r.0))
            }
        }
        impl<'a, 'b> ::core::ops::$tr<&'b Tm> for &'a Tm {
            type Output = Tm;
            fn $f(self, r: &'b Tm) -> Tm {
                log(format!("{}:rr:{}:{}", $name, self.0, r.0));
                Tm(format!("{}({},{})", $name, self.0, r.0))
            }
        }
        impl ::core::ops::$tra<Tm> for Tm {
            fn $fa(&mut self, r: Tm) {
                log(format!("{}_assign:v:{}:{}", $name, self.0, r.0));
                self.0 = format!("{}({},{})", $name, self.0, r.0);
            }
        }
        impl<'a> ::core::ops::$tra<&'a Tm> for Tm {
            fn $fa(&mut self, r: &'a Tm) {
                log(format!("{}_assign:r:{}:{}", $name, self.0, r.0));
                self.0 = format!("{}({},{})", $name, self.0, r.0);
            }
        }
    };
}
tm_binop!(Add, add, AddAssign, add_assign, "add");
tm_binop!(BitAnd, bitand, BitAndAssign, bitand_assign, "bitand");
tm_binop!(BitOr, bitor, BitOrAssign, bitor_assign, "bitor");
tm_binop!(BitXor, bitxor, BitXorAssign, bitxor_assign, "bitxor");
tm_binop!(Div, div, DivAssign, div_assign, "div");
tm_binop!(Mul, mul, MulAssign, mul_assign, "mul");
tm_binop!(Rem, rem, RemAssign, rem_assign, "rem");
tm_binop!(Shl, shl, ShlAssign, shl_assign, "shl");
tm_binop!(Shr, shr, ShrAssign, shr_assign, "shr");
tm_binop!(Sub, sub, SubAssign, sub_assign, "sub");
macro_rules! tm_unop {
    ($tr:ident, $f:ident, $name:expr) => {
        impl ::core::ops::$tr for Tm {
            type Output = Tm;
            fn $f(self) -> Tm {
                log(format!("{}:v:{}", $name, self.0));
                Tm(format!("{}({})", $name, self.0))
            }
        }
        impl<'a> ::core::ops::$tr for &'a Tm {
            type Output = Tm;
            fn $f(self) -> Tm {
                log(format!("{}:r:{}", $name, self.0));
                Tm(format!("{}({})", $name, self.0))
            }
        }
    };
}
tm_unop!(Neg, neg, "neg");
tm_unop!(Not, not, "not");

// ---------------------------------------------------------------------------------------------
// LT / RT: operand types for operators derived from a user impl.  Cloning is logged.
// ---------------------------------------------------------------------------------------------
#[derive(Debug, PartialEq, Eq)]
pub struct LT(pub String);
impl Clone for LT {
    fn clone(&self) -> Self {
        log(format!("cloneL:{}", self.0));
        LT(self.0.clone())
    }
}
#[derive(Debug, PartialEq, Eq)]
pub struct RT(pub String);
impl Clone for RT {
    fn clone(&self) -> Self {
        log(format!("cloneR:{}", self.0));
        RT(self.0.clone())
    }
}

// ---------------------------------------------------------------------------------------------
// PV2: provenance-recording value for Default
// ---------------------------------------------------------------------------------------------
#[derive(Debug, Clone, PartialEq, Eq)]
pub struct Pr(pub String);
impl Default for Pr {
    fn default() -> Self {
        Pr("default()".to_string())
    }
}
/// source type of conversions
#[derive(Debug, Clone, Copy)]
pub struct Src(pub u8);
impl From<Src> for Pr {
    fn from(s: Src) -> Pr {
        Pr(format!("from_src:{}", s.0))
    }
}
impl From<&str> for Pr {
    fn from(s: &str) -> Pr {
        Pr(format!("from_str:{}", s))
    }
}
pub const SRC7: Src = Src(7);
pub const PR9: fn() -> Pr = || Pr("const_fn".to_string());
pub struct Holder;
impl Holder {
    pub const SRC3: Src = Src(3);
}
// paths of other syntactic forms: qualified self type, generic arguments on a segment
pub trait HasSrc {
    const SRC2: Src;
}
impl HasSrc for Holder {
    const SRC2: Src = Src(2);
}
pub struct HolderG<T>(pub ::core::marker::PhantomData<T>);
impl<T> HolderG<T> {
    pub const SRC1: Src = Src(1);
}
impl Pr {
    pub fn same(self) -> Pr {
        self
    }
    /// an associated constant of the field type itself whose type is ANOTHER type (converted through From<Src>)
    pub const RAW4: Src = Src(4);
}
pub fn mk(n: u8) -> Pr {
    Pr(format!("call:{}", n))
}

/// like CF but also `Copy` (with a hand-written, logging `Clone`)
#[derive(Copy, Debug, PartialEq, Eq, PartialOrd, Ord, Hash)]
pub struct CFC(pub u8, pub u8);
impl Clone for CFC {
    fn clone(&self) -> Self {
        log(format!("clone:{}:{}", self.0, self.1));
        CFC(self.0, self.1)
    }
    fn clone_from(&mut self, source: &Self) {
        log(format!("clone_from:{}:{}:{}:{}", self.0, self.1, source.0, source.1));
        self.0 = source.0;
        self.1 = source.1;
    }
}

/// one field of a Debug observation: its own `{:?}` text and `{:#?}` lines
pub fn dbg_field<T: std::fmt::Debug>(name: &str, dbg: &str, x: &T) -> String {
    let alt: Vec<String> = format!("{:#?}", x).split('\n').map(|s| s.to_string()).collect();
    format!(
        "{{\"name\":\"{}\",\"dbg\":\"{}\",\"leaf\":\"{}\",\"alt\":{}}}",
        json_str(name),
        dbg,
        json_str(&format!("{:?}", x)),
        json_strs(&alt)
    )
}

/// a relation every pair of types satisfies: lets generated programs write bounds that mention `Self`
pub trait Rel<U: ?Sized> {}
impl<A: ?Sized, U: ?Sized> Rel<U> for A {}

// ---------------------------------------------------------------------------------------------
// Tc: the same free term algebra as Tm, but `Copy` and of alignment 1 (a one-byte handle into a thread-local table of
// terms), so that it can sit in `#[repr(packed)]` structs.  tc_reset() empties the table (at most 255 terms per case).
// ---------------------------------------------------------------------------------------------
thread_local! { static TERMS: ::std::cell::RefCell<Vec<String>> = ::std::cell::RefCell::new(Vec::new()); }
#[derive(Clone, Copy, Debug, PartialEq, Eq)]
pub struct Tc(pub u8);
pub fn tc_reset() {
    TERMS.with(|t| t.borrow_mut().clear());
}
pub fn tc(s: &str) -> Tc {
    TERMS.with(|t| {
        let mut t = t.borrow_mut();
        t.push(s.to_string());
        assert!(t.len() <= 255, "Tc table full");
        Tc((t.len() - 1) as u8)
    })
}
pub fn tc_str(x: Tc) -> String {
    TERMS.with(|t| t.borrow()[x.0 as usize].clone())
}
macro_rules! tc_binop {
    ($tr:ident, $f:ident, $tra:ident, $fa:ident, $name:expr) => {
        impl ::core::ops::$tr<Tc> for Tc {
            type Output = Tc;
            fn $f(self, r: Tc) -> Tc {
                log(format!("{}:vv:{}:{}", $name, tc_str(self), tc_str(r)));
                tc(&format!("{}({},{})", $name, tc_str(self), tc_str(r)))
            }
        }
        impl<'a> ::core::ops::$tr<&'a Tc> for Tc {
            type Output = Tc;
            fn $f(self, r: &'a Tc) -> Tc {
                log(format!("{}:vr:{}:{}", $name, tc_str(self), tc_str(*r)));
                tc(&format!("{}({},{})", $name, tc_str(self), tc_str(*r)))
            }
        }
        impl<'a> ::core::ops::$tr<Tc> for &'a Tc {
            type Output = Tc;
            fn $f(self, r: Tc) -> Tc {
                log(format!("{}:rv:{}:{}", $name, tc_str(*self), tc_str(r)));
                tc(&format!("{}({},{})", $name, tc_str(*self), tc_str(r)))
            }
        }
        impl<'a, 'b> ::core::ops::$tr<&'b Tc> for &'a Tc {
            type Output = Tc;
            fn $f(self, r: &'b Tc) -> Tc {
                log(format!("{}:rr:{}:{}", $name, tc_str(*self), tc_str(*r)));
                tc(&format!("{}({},{})", $name, tc_str(*self), tc_str(*r)))
            }
        }
        impl ::core::ops::$tra<Tc> for Tc {
            fn $fa(&mut self, r: Tc) {
                log(format!("{}_assign:v:{}:{}", $name, tc_str(*self), tc_str(r)));
                *self = tc(&format!("{}({},{})", $name, tc_str(*self), tc_str(r)));
            }
        }
        impl<'a> ::core::ops::$tra<&'a Tc> for Tc {
            fn $fa(&mut self, r: &'a Tc) {
                log(format!("{}_assign:r:{}:{}", $name, tc_str(*self), tc_str(*r)));
                *self = tc(&format!("{}({},{})", $name, tc_str(*self), tc_str(*r)));
            }
        }
    };
}
tc_binop!(Add, add, AddAssign, add_assign, "add");
tc_binop!(BitAnd, bitand, BitAndAssign, bitand_assign, "bitand");
tc_binop!(BitOr, bitor, BitOrAssign, bitor_assign, "bitor");
tc_binop!(BitXor, bitxor, BitXorAssign, bitxor_assign, "bitxor");
tc_binop!(Div, div, DivAssign, div_assign, "div");
tc_binop!(Mul, mul, MulAssign, mul_assign, "mul");
tc_binop!(Rem, rem, RemAssign, rem_assign, "rem");
tc_binop!(Shl, shl, ShlAssign, shl_assign, "shl");
tc_binop!(Shr, shr, ShrAssign, shr_assign, "shr");
tc_binop!(Sub, sub, SubAssign, sub_assign, "sub");
macro_rules! tc_unop {
    ($tr:ident, $f:ident, $name:expr) => {
        impl ::core::ops::$tr for Tc {
            type Output = Tc;
            fn $f(self) -> Tc {
                log(format!("{}:v:{}", $name, tc_str(self)));
                tc(&format!("{}({})", $name, tc_str(self)))
            }
        }
        impl<'a> ::core::ops::$tr for &'a Tc {
            type Output = Tc;
            fn $f(self) -> Tc {
                log(format!("{}:r:{}", $name, tc_str(*self)));
                tc(&format!("{}({})", $name, tc_str(*self)))
            }
        }
    };
}
tc_unop!(Neg, neg, "neg");
tc_unop!(Not, not, "not");

// ---------------------------------------------------------------------------------------------
// Decoys.  The generated code must call a trait's method through the trait's fully qualified path.  Method-call syntax
// (`x.clone()`, `a.eq(b)`) or a type-relative path (`Ty::default()`) would pick an INHERENT method of the same name
// first; every instrumented type therefore carries inherent methods named like the trait methods, which log and answer
// wrongly, so that such a call cannot go unnoticed.
// ---------------------------------------------------------------------------------------------
macro_rules! decoys_cmp {
    ($t:ty) => {
        #[allow(clippy::should_implement_trait, dead_code)]
        impl $t {
            pub fn eq(&self, _o: &Self) -> bool { log("decoy:eq".to_string()); false }
            pub fn ne(&self, _o: &Self) -> bool { log("decoy:ne".to_string()); false }
            pub fn partial_cmp(&self, _o: &Self) -> Option<Ordering> { log("decoy:partial_cmp".to_string()); None }
            pub fn cmp(&self, _o: &Self) -> Ordering { log("decoy:cmp".to_string()); Ordering::Greater }
            pub fn lt(&self, _o: &Self) -> bool { true }
            pub fn le(&self, _o: &Self) -> bool { false }
            pub fn gt(&self, _o: &Self) -> bool { true }
            pub fn ge(&self, _o: &Self) -> bool { false }
            pub fn hash<H: Hasher>(&self, s: &mut H) { s.write_u8(255); }
        }
    };
}
decoys_cmp!(V);
decoys_cmp!(K);
decoys_cmp!(NE);
decoys_cmp!(KN);
decoys_cmp!(PV);
#[allow(clippy::should_implement_trait, dead_code)]
impl CF {
    pub fn clone(&self) -> Self { log("decoy:clone".to_string()); CF(99, 99) }
    pub fn clone_from(&mut self, _s: &Self) { log("decoy:clone_from".to_string()); self.1 = 98; }
}
#[allow(clippy::should_implement_trait, dead_code)]
impl CFC {
    pub fn clone(&self) -> Self { log("decoy:clone".to_string()); CFC(99, 99) }
    pub fn clone_from(&mut self, _s: &Self) { log("decoy:clone_from".to_string()); self.1 = 98; }
}
#[allow(clippy::should_implement_trait, dead_code)]
impl Pr {
    pub fn default() -> Pr { Pr("decoy:default".to_string()) }
    pub fn from<T>(_x: T) -> Pr { Pr("decoy:from".to_string()) }
    pub fn clone(&self) -> Pr { Pr("decoy:clone".to_string()) }
}
/// a source type that converts to Pr through a hand-written `Into` only (no `From<SrcI> for Pr` exists)
#[derive(Debug, Clone, Copy)]
pub struct SrcI(pub u8);
#[allow(clippy::from_over_into)]
impl Into<Pr> for SrcI {
    fn into(self) -> Pr {
        Pr(format!("into_srci:{}", self.0))
    }
}
pub const SRCI8: SrcI = SrcI(8);

/// QO(dim, val): totally ordered (`Ord`: by dim, then val) but only partially ordered through `PartialOrd`
/// (values of different dimensions are incomparable) - the two orders of a field type need not agree
#[derive(Clone, Copy, Debug, PartialEq, Eq, Hash)]
pub struct QO(pub u8, pub u8);
impl Ord for QO {
    fn cmp(&self, o: &QO) -> Ordering {
        (self.0, self.1).cmp(&(o.0, o.1))
    }
}
#[allow(clippy::non_canonical_partial_ord_impl)]
impl PartialOrd for QO {
    fn partial_cmp(&self, o: &QO) -> Option<Ordering> {
        if self.0 != o.0 {
            None
        } else {
            Some(self.1.cmp(&o.1))
        }
    }
}

/// DF: a Debug leaf with an INHERENT method called `fmt` and a second fmt trait (Display): the derived code must call
/// `::core::fmt::Debug::fmt` by path (method-call syntax would pick the decoy, or be ambiguous where Display is in scope)
#[derive(Clone, Copy, PartialEq)]
pub struct DF(pub u8);
impl std::fmt::Debug for DF {
    fn fmt(&self, f: &mut std::fmt::Formatter<'_>) -> std::fmt::Result {
        f.debug_tuple("DF").field(&self.0).finish()
    }
}
impl std::fmt::Display for DF {
    fn fmt(&self, f: &mut std::fmt::Formatter<'_>) -> std::fmt::Result {
        write!(f, "display:{}", self.0)
    }
}
#[allow(dead_code)]
impl DF {
    pub fn fmt(&self, f: &mut std::fmt::Formatter<'_>) -> std::fmt::Result {
        f.write_str("decoy:fmt")
    }
}

/// a wrapper whose LAST type argument may be unsized
#[derive(Debug, PartialEq)]
pub struct Tagged<K, V: ?Sized>(pub K, pub V);

// ---------------------------------------------------------------------------------------------
// W: the field type of the life-cycle family (spec/DxLife.tla).  W(val, tag): a number modulo 6
// with every trait a derived type can forward to.  Comparisons and hashing look at `val` only
// (hashes like V: (100, val)); `tag` is the position the driver put the value in (9 after
// Default::default(), 7 after a write through deref_mut).  Clone, Default and the operators log
// their calls; results of operators keep the tag of the LEFT operand.
// ---------------------------------------------------------------------------------------------
pub fn w_op(op: &str, a: u8, b: u8) -> u8 {
    match op {
        "add" => (a + b) % 6,
        "sub" => (a + 6 - b) % 6,
        _ => 255,
    }
}
macro_rules! w_binop {
    ($N:ident, $Tr:ident, $f:ident, $TrA:ident, $fa:ident, $name:expr) => {
        impl std::ops::$Tr<$N> for $N {
            type Output = $N;
            fn $f(self, r: $N) -> $N {
                log(format!("{}:vv:{}:{}:{}:{}", $name, self.1, self.0, r.1, r.0));
                $N(w_op($name, self.0, r.0), self.1)
            }
        }
        impl<'a> std::ops::$Tr<&'a $N> for $N {
            type Output = $N;
            fn $f(self, r: &'a $N) -> $N {
                log(format!("{}:vr:{}:{}:{}:{}", $name, self.1, self.0, r.1, r.0));
                $N(w_op($name, self.0, r.0), self.1)
            }
        }
        impl<'a> std::ops::$Tr<$N> for &'a $N {
            type Output = $N;
            fn $f(self, r: $N) -> $N {
                log(format!("{}:rv:{}:{}:{}:{}", $name, self.1, self.0, r.1, r.0));
                $N(w_op($name, self.0, r.0), self.1)
            }
        }
        impl<'a, 'b> std::ops::$Tr<&'b $N> for &'a $N {
            type Output = $N;
            fn $f(self, r: &'b $N) -> $N {
                log(format!("{}:rr:{}:{}:{}:{}", $name, self.1, self.0, r.1, r.0));
                $N(w_op($name, self.0, r.0), self.1)
            }
        }
        impl std::ops::$TrA<$N> for $N {
            fn $fa(&mut self, r: $N) {
                log(format!("{}_assign:v:{}:{}:{}:{}", $name, self.1, self.0, r.1, r.0));
                self.0 = w_op($name, self.0, r.0);
            }
        }
        impl<'a> std::ops::$TrA<&'a $N> for $N {
            fn $fa(&mut self, r: &'a $N) {
                log(format!("{}_assign:r:{}:{}:{}:{}", $name, self.1, self.0, r.1, r.0));
                self.0 = w_op($name, self.0, r.0);
            }
        }
    };
}
macro_rules! def_w {
    ($(#[$m:meta])* $N:ident) => {
        $(#[$m])*
                pub struct $N(pub u8, pub u8);
        impl ::std::fmt::Debug for $N {
            // (both guises print as `W(val, tag)`, flags reach the fields as with a derived Debug)
            fn fmt(&self, f: &mut ::std::fmt::Formatter<'_>) -> ::std::fmt::Result {
                f.debug_tuple("W").field(&self.0).field(&self.1).finish()
            }
        }
        impl Clone for $N {
            fn clone(&self) -> Self {
                log(format!("clone:{}:{}", self.1, self.0));
                $N(self.0, self.1)
            }
            fn clone_from(&mut self, source: &Self) {
                log(format!("clone_from:{}:{}:{}:{}", self.1, self.0, source.1, source.0));
                self.0 = source.0;
                self.1 = source.1;
            }
        }
        impl Default for $N {
            fn default() -> Self {
                log("default".to_string());
                $N(0, 9)
            }
        }
        impl PartialEq for $N {
            fn eq(&self, o: &Self) -> bool {
                self.0 == o.0
            }
        }
        impl Eq for $N {}
        impl PartialOrd for $N {
            fn partial_cmp(&self, o: &Self) -> Option<Ordering> {
                Some(self.0.cmp(&o.0))
            }
        }
        impl Ord for $N {
            fn cmp(&self, o: &Self) -> Ordering {
                self.0.cmp(&o.0)
            }
        }
        impl Hash for $N {
            fn hash<H: Hasher>(&self, state: &mut H) {
                state.write_u8(100);
                state.write_u8(self.0);
            }
        }
        w_binop!($N, Add, add, AddAssign, add_assign, "add");
        w_binop!($N, Sub, sub, SubAssign, sub_assign, "sub");
        impl std::ops::Neg for $N {
            type Output = $N;
            fn neg(self) -> $N {
                log(format!("neg:v:{}:{}", self.1, self.0));
                $N((6 - self.0) % 6, self.1)
            }
        }
        impl<'a> std::ops::Neg for &'a $N {
            type Output = $N;
            fn neg(self) -> $N {
                log(format!("neg:r:{}:{}", self.1, self.0));
                $N((6 - self.0) % 6, self.1)
            }
        }
        // decoys: inherent methods named like the trait methods (method-call syntax in generated code would pick these)
        impl $N {
            pub fn clone(&self) -> Self { log("decoy:clone".to_string()); $N(99, 99) }
            pub fn clone_from(&mut self, _s: &Self) { log("decoy:clone_from".to_string()); self.1 = 98; }
            pub fn eq(&self, _o: &Self) -> bool { log("decoy:eq".to_string()); false }
            pub fn cmp(&self, _o: &Self) -> Ordering { log("decoy:cmp".to_string()); Ordering::Greater }
            pub fn partial_cmp(&self, _o: &Self) -> Option<Ordering> { log("decoy:partial_cmp".to_string()); None }
            pub fn hash<H>(&self, _s: &mut H) { log("decoy:hash".to_string()); }
            pub fn add(self, _r: $N) -> $N { log("decoy:add".to_string()); $N(97, 97) }
            pub fn sub(self, _r: $N) -> $N { log("decoy:sub".to_string()); $N(97, 97) }
            pub fn neg(self) -> $N { log("decoy:neg".to_string()); $N(97, 97) }
            pub fn default() -> $N { log("decoy:default".to_string()); $N(96, 96) }
        }
    };
}
def_w!(W);
// Wc: the same, Copy (its Clone impl still logs: a derived Clone must call it even when Copy is derived next to it)
def_w!(#[derive(Copy)] Wc);
/// projection of a W for the life-cycle traces: "val:tag"
pub fn w_proj(x: &W) -> String {
    format!("[{},{}]", x.0, x.1)
}

/// identity projection: `<X as Idt>::T` is `X` spelled as a qualified path
pub trait Idt {
    type Same;
}
impl<X> Idt for X {
    type Same = X;
}

/// a generic wrapper whose NAME is the one the bound-family items use for themselves (`X`): a field of type
/// `::dx_support::samename::X<T>` mentions the item's own name without referring to the item
pub mod samename {
    #[derive(Clone, Copy, Debug, Default, PartialEq, Eq, PartialOrd, Ord, Hash)]
    pub struct X<T>(pub T);
}

/// identity projection with a type argument on the trait: `<X as IdtP<PhantomData<u8>>>::Same` is `X`, spelled with another type inside
pub trait IdtP<M: ?Sized> {
    type Same;
}
impl<X, M: ?Sized> IdtP<M> for X {
    type Same = X;
}

/// a type with a const parameter only (it implements the nine basic traits for every K)
#[derive(Clone, Copy, Debug, Default, PartialEq, Eq, PartialOrd, Ord, Hash)]
pub struct Cn<const K: usize>;
