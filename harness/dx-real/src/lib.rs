pub use derive_ex::derive_ex;
