-------------------------------- MODULE DxLife --------------------------------
(***************************************************************************)
(* The life cycle of ONE derived type: every trait derive_ex can generate  *)
(* for it, acting on a pool of program variables.  This is the run-time    *)
(* machine of DESIGN.md 1.2 with real state: where DxCmp / DxRun say what  *)
(* a single call returns, this module says how a HISTORY of calls          *)
(*   set, default, clone, clone_from, a op b (4 reference forms), a op= b, *)
(*   op a, write through deref_mut, ==, partial_cmp, cmp, hash, {:?}       *)
(* evolves the variables, what each call returns and which calls it makes  *)
(* on the field type.  Traits interact only through the values they leave  *)
(* behind; a derived impl that keeps anything else (a cache, a temporary   *)
(* it writes to, a shortcut that depends on a co-derived trait) cannot     *)
(* follow these histories.                                                 *)
(*                                                                         *)
(* The field type is W (harness/dx-support): W(val, tag), a number modulo  *)
(* 6.  Comparisons and hashing look at val only; tag records where the     *)
(* value came from (field position j-1 when the driver built it, 9 from    *)
(* Default::default(), 7 from a write through deref_mut); operators keep   *)
(* the tag of the left operand.                                            *)
(*                                                                         *)
(* An item L = [kind, variants : Seq([shape, name, fields : Seq([cmp,ty])])*)
(*              D : Seq(comparison traits, as listed), mode,               *)
(*              ops : BOOLEAN (Add Sub Neg AddAssign SubAssign, structs),  *)
(*              deref : BOOLEAN (Deref + DerefMut, single-field structs),  *)
(*              dvar : 0 (Default not derived) | index of default variant] *)
(* Clone and Debug are always derived.                                     *)
(***************************************************************************)
EXTENDS DxCmp, DxRun

LS(n) == ToString(n)
B2I(b) == IF b THEN 1 ELSE 0

Fld(v, t) == [val |-> v, tag |-> t]
LNF(L, vi) == Len(L.variants[vi].fields)
DS(L) == Range(L.D)

\* the value the driver builds for `set`: variant vi, field j = W(vals[j], j-1)
LSet(vi, vals) == [v |-> vi, f |-> [j \in DOMAIN vals |-> Fld(vals[j], j - 1)]]
\* comparison / hash semantics see the vals only
Vals(x) == [v |-> x.v, f |-> [j \in DOMAIN x.f |-> x.f[j].val]]

(***************************************************************************)
(* Default (C11): the struct / the #[default] variant / the only variant,  *)
(* every field Default::default() of its type = W(0, 9), one call each.    *)
(***************************************************************************)
LDefault(L) == [v |-> L.dvar, f |-> [j \in 1..LNF(L, L.dvar) |-> Fld(0, 9)]]
LDefaultLog(L) == [j \in 1..LNF(L, L.dvar) |-> "default"]

(***************************************************************************)
(* Clone (C07): as DxRun.CloneLog / CloneFromLog, for W                    *)
(***************************************************************************)
LCloneLog(x) == [j \in DOMAIN x.f |-> "clone:" \o LS(x.f[j].tag) \o ":" \o LS(x.f[j].val)]
LCloneFromLog(a, b) ==
    IF a.v = b.v
    THEN [j \in DOMAIN a.f |-> "clone_from:" \o LS(a.f[j].tag) \o ":" \o LS(a.f[j].val) \o ":" \o LS(b.f[j].tag) \o ":" \o LS(b.f[j].val)]
    ELSE LCloneLog(b)

(***************************************************************************)
(* Operators derived from the struct definition (C08): field-wise, left    *)
(* operand on the left, the same reference form applied to the fields.     *)
(***************************************************************************)
WOp(op, x, y) == IF op = "add" THEN (x + y) % 6 ELSE (x + 6 - y) % 6
WNeg(x) == (6 - x) % 6
RefC(r) == IF r THEN "r" ELSE "v"
LBin(op, x, y) == [v |-> 1, f |-> [j \in DOMAIN x.f |-> Fld(WOp(op, x.f[j].val, y.f[j].val), x.f[j].tag)]]
LBinLog(op, lref, rref, x, y) ==
    [j \in DOMAIN x.f |-> op \o ":" \o RefC(lref) \o RefC(rref) \o ":" \o LS(x.f[j].tag) \o ":" \o LS(x.f[j].val)
                             \o ":" \o LS(y.f[j].tag) \o ":" \o LS(y.f[j].val)]
LAssignLog(op, rref, x, y) ==
    [j \in DOMAIN x.f |-> op \o "_assign:" \o RefC(rref) \o ":" \o LS(x.f[j].tag) \o ":" \o LS(x.f[j].val)
                             \o ":" \o LS(y.f[j].tag) \o ":" \o LS(y.f[j].val)]
LNeg(x) == [v |-> 1, f |-> [j \in DOMAIN x.f |-> Fld(WNeg(x.f[j].val), x.f[j].tag)]]
LNegLog(lref, x) == [j \in DOMAIN x.f |-> "neg:" \o RefC(lref) \o ":" \o LS(x.f[j].tag) \o ":" \o LS(x.f[j].val)]

(***************************************************************************)
(* Deref / DerefMut (C18): the single field itself                         *)
(***************************************************************************)
LDerefWrite(x, v) == [x EXCEPT !.f = <<Fld(v, 7)>>]

(***************************************************************************)
(* Debug (C10): like the standard derive; the leaf is W's own rendering    *)
(***************************************************************************)
WLeaf(fv) == "W(" \o LS(fv.val) \o ", " \o LS(fv.tag) \o ")"
RECURSIVE LJoin(_, _)
LJoin(parts, i) == IF i > Len(parts) THEN "" ELSE (IF i > 1 THEN ", " ELSE "") \o parts[i] \o LJoin(parts, i + 1)
LDebug(L, x) ==
    LET vr == L.variants[x.v]
        n  == Len(x.f)
    IN  IF n = 0 THEN vr.name
        ELSE IF vr.shape = "named"
             THEN vr.name \o " { " \o LJoin([j \in 1..n |-> vr.fields[j].name \o ": " \o WLeaf(x.f[j])], 1) \o " }"
             ELSE vr.name \o "(" \o LJoin([j \in 1..n |-> WLeaf(x.f[j])], 1) \o ")"

\* {:#?}: DxRun.RenderAlt over the leaves' own alternate renderings, joined with line feeds
WLeafAlt(fv) == <<"W(", "    " \o LS(fv.val) \o ",", "    " \o LS(fv.tag) \o ",", ")">>
RECURSIVE JoinNL(_, _)
JoinNL(lines, i) == IF i > Len(lines) THEN "" ELSE (IF i > 1 THEN "\n" ELSE "") \o lines[i] \o JoinNL(lines, i + 1)
LDebugAlt(L, x) ==
    LET vr == L.variants[x.v]
    IN  JoinNL(RenderAlt(vr.name, vr.shape = "named", [j \in DOMAIN x.f |-> [name |-> vr.fields[j].name, alt |-> WLeafAlt(x.f[j])]]), 1)

(***************************************************************************)
(* Actions.  One uniform record shape so that histories are sequences of   *)
(* one type:  act, d (destination), a, b (operands / sources), op, lr, rr  *)
(* (operand received by reference?), vi, vals (for set / deref_write).     *)
(***************************************************************************)
Act(act, d, a, b, op, lr, rr, vi, vals) ==
    [act |-> act, d |-> d, a |-> a, b |-> b, op |-> op, lr |-> lr, rr |-> rr, vi |-> vi, vals |-> vals]

Mutators  == {"set", "default", "clone", "clone_from", "bin", "assign", "un", "deref_write"}
Observers == {"eq", "pcmp", "cmp", "hash", "debug", "debug_alt", "deref_read"}

\* is the action part of the API of this item?
Offered(L, x) ==
    CASE x.act \in {"set", "clone", "clone_from", "debug", "debug_alt"} -> TRUE
      [] x.act = "default"     -> L.dvar > 0
      [] x.act \in {"bin", "assign", "un"} -> L.ops
      [] x.act \in {"deref_write", "deref_read"} -> L.deref
      [] x.act = "eq"          -> "PartialEq" \in DS(L)
      [] x.act = "pcmp"        -> "PartialOrd" \in DS(L)
      [] x.act = "cmp"         -> "Ord" \in DS(L)
      [] x.act = "hash"        -> "Hash" \in DS(L)
      [] OTHER -> FALSE

\* the pool after the call
Step(L, pool, x) ==
    CASE x.act = "set"         -> [pool EXCEPT ![x.d] = LSet(x.vi, x.vals)]
      [] x.act = "default"     -> [pool EXCEPT ![x.d] = LDefault(L)]
      [] x.act = "clone"       -> [pool EXCEPT ![x.d] = pool[x.a]]
      [] x.act = "clone_from"  -> [pool EXCEPT ![x.d] = pool[x.a]]
      [] x.act = "bin"         -> [pool EXCEPT ![x.d] = LBin(x.op, pool[x.a], pool[x.b])]       \* d = a op b
      [] x.act = "assign"      -> [pool EXCEPT ![x.d] = LBin(x.op, pool[x.d], pool[x.a])]       \* d op= a
      [] x.act = "un"          -> [pool EXCEPT ![x.d] = LNeg(pool[x.a])]                        \* d = -a
      [] x.act = "deref_write" -> [pool EXCEPT ![x.d] = LDerefWrite(pool[x.d], x.vals[1])]
      [] OTHER                 -> pool                                                           \* observers change nothing

\* what the call returns to the user (observers); 0 for calls whose result is the new value of d
Result(L, pool, x) ==
    LET O == Outcomes(L, DS(L))
    IN  CASE x.act = "eq"    -> B2I(EqO(O, L.mode, Vals(pool[x.a]), Vals(pool[x.b])))
          [] x.act = "pcmp"  -> CmpO(O, L.mode, "PartialOrd", Vals(pool[x.a]), Vals(pool[x.b]))
          [] x.act = "cmp"   -> CmpO(O, L.mode, "Ord", Vals(pool[x.a]), Vals(pool[x.b]))
          [] x.act = "hash"  -> HashFeedO(O, L.mode, Vals(pool[x.a]))
          [] x.act = "debug" -> LDebug(L, pool[x.a])
          [] x.act = "debug_alt" -> LDebugAlt(L, pool[x.a])
          [] x.act = "deref_read" -> WLeaf(pool[x.a].f[1])
          [] OTHER           -> 0

\* the calls the derived code makes on the field type, in order
CallLog(L, pool, x) ==
    CASE x.act = "default"    -> LDefaultLog(L)
      [] x.act = "clone"      -> LCloneLog(pool[x.a])
      [] x.act = "clone_from" -> LCloneFromLog(pool[x.d], pool[x.a])
      [] x.act = "bin"        -> LBinLog(x.op, x.lr, x.rr, pool[x.a], pool[x.b])
      [] x.act = "assign"     -> LAssignLog(x.op, x.rr, pool[x.d], pool[x.a])
      [] x.act = "un"         -> LNegLog(x.lr, pool[x.a])
      [] OTHER                -> <<>>

(***************************************************************************)
(* Laws that tie the traits together (checked by MC_Life on every          *)
(* reachable state; they are the reason a derived type can be used as an   *)
(* ordinary value)                                                         *)
(***************************************************************************)
\* a clone is indistinguishable from its source for every observer
CloneIndistinguishable(L, pool, d, s) ==
    LET p == Step(L, pool, Act("clone", d, s, s, "-", FALSE, FALSE, 0, <<>>))
        ob(k) == Act(k, d, d, s, "-", FALSE, FALSE, 0, <<>>)
        ob1(k) == Act(k, d, d, d, "-", FALSE, FALSE, 0, <<>>)
        ob2(k) == Act(k, d, s, s, "-", FALSE, FALSE, 0, <<>>)
    IN  /\ Offered(L, ob("eq"))   => Result(L, p, ob("eq")) = 1
        /\ Offered(L, ob("pcmp")) => Result(L, p, ob("pcmp")) = 0
        /\ Offered(L, ob("cmp"))  => Result(L, p, ob("cmp")) = 0
        /\ Offered(L, ob("hash")) => Result(L, p, ob1("hash")) = Result(L, p, ob2("hash"))
        /\ Result(L, p, ob1("debug")) = Result(L, p, ob2("debug"))
\* clone_from and clone leave the same value
CloneFromIsClone(L, pool, d, s) ==
    Step(L, pool, Act("clone_from", d, s, s, "-", FALSE, FALSE, 0, <<>>)) = Step(L, pool, Act("clone", d, s, s, "-", FALSE, FALSE, 0, <<>>))
\* a op= b leaves what a op b returns, in every reference form
AssignIsBin(L, pool, d, s, op) ==
    \A lr, rr \in BOOLEAN :
        Step(L, pool, Act("assign", d, s, s, op, FALSE, rr, 0, <<>>))[d] = Step(L, pool, Act("bin", d, d, s, op, lr, rr, 0, <<>>))[d]
=============================================================================
