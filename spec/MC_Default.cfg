SPECIFICATION Spec
INVARIANTS MechIsDoc ExactlyOne
CHECK_DEADLOCK FALSE
