----------------------------- MODULE Trace_Bounds -----------------------------
(***************************************************************************)
(* Trace specification for trait bounds (C03, C04).  One line = one real   *)
(* expansion of an item: for every impl of the trait under study the set   *)
(* of where-predicates, projected to origin tags by the observer.  A line  *)
(* is accepted iff every impl carries exactly DocWhere(P).                 *)
(***************************************************************************)
EXTENDS DxBounds, Json, IOUtils

Rec == ndJsonDeserialize(IOEnv.TRACE)

VARIABLES l, bad
tvars == <<l, bad>>

ImplCount(t) == IF t \in BinOps THEN 4 ELSE IF t \in AssignOps \cup UnOps THEN 2 ELSE 1

\* derive_ex itself refuses the trait (comparison misuse): no impl at all
Rejected(P) ==
    /\ IsCmp(P.t)
    /\ \E i \in DOMAIN P.variants : \E j \in DOMAIN P.variants[i].fields :
          FieldCmpOutcome(P.variants[i].fields[j], P.t, Range(P.D)).o = "err"

ExplainsWhere(e) ==
    IF Rejected(e.P) THEN Len(e.impls) = 0 /\ e.nerr >= 1
    ELSE LET W == DocWhere(e.P)
         IN  /\ Len(e.impls) = ImplCount(e.P.t)
             /\ \A i \in DOMAIN e.impls : Range(e.impls[i]) = W
             /\ ((Len(e.P.D) = 1 \/ e.strict) => e.nerr = 0)
             \* declared inline bounds (incl. those that mention `Self`) are carried over to every impl as written
             /\ ("generics_ok" \in DOMAIN e => \A i \in DOMAIN e.generics_ok : e.generics_ok[i])

\* C03 (iii): the generic impl with its default bounds type-checks
ExplainsCompiles(e) == e.rustc_ok

\* C03, behavioural: e.tags is the where-clause the twin impl was built from; e.bits the trait-solver verdicts
\* [derived, twin] for every instantiation of the parameters by probe types
ExplainsProbe(e) ==
    /\ Range(e.tags) = DocWhere(e.P)                    \* the twin really carries the specified where-clause
    /\ e.rustc_ok
    /\ Len(e.bits) > 0
    /\ \A i \in DOMAIN e.bits : e.bits[i].derived = e.bits[i].twin

Explains(e) ==
    CASE e.ev = "where"    -> ExplainsWhere(e)
      [] e.ev = "probe"    -> ExplainsProbe(e)
      [] e.ev = "compiles" -> ExplainsCompiles(e)
      [] OTHER             -> FALSE

TraceInit == l = 1 /\ bad = <<>>
Consume ==
    /\ l <= Len(Rec)
    /\ l' = l + 1
    /\ bad' = IF Explains(Rec[l]) THEN bad ELSE Append(bad, l)
TraceSpec == TraceInit /\ [][Consume]_tvars

Verdict ==
    l = Len(Rec) + 1 => PrintT(<<"JUDGE", ToJson([n |-> l - 1, bad |-> bad])>>)
=============================================================================
