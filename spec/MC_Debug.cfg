SPECIFICATION Spec
INVARIANTS BuilderIsRender MinusIgnored
CHECK_DEADLOCK FALSE
