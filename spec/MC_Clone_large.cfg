CONSTANT SHAPESET = "large"
SPECIFICATION Spec
INVARIANTS LastAssigned TypeOK LogLength
VIEW VIEW_NoLog
CHECK_DEADLOCK FALSE
