CONSTANT DSETS = "quick"
SPECIFICATION Spec
INVARIANTS TypeOK Progress MechIsDoc Isolation DocErrorCases EmitCfg
CHECK_DEADLOCK FALSE
