------------------------------- MODULE MC_Cmp -------------------------------
(***************************************************************************)
(* The comparison part of the expander as a state machine, instantiated on *)
(* the property's configuration matrix: one subject field carrying any of  *)
(* the 3136 helper-attribute combinations, for every derived trait set.    *)
(*                                                                         *)
(* After Init (which picks the input) the machine is deterministic and     *)
(* shaped like build_by_item_*_core / build_compare_op: for each requested *)
(* trait in listing order: is_ignore, then the precedence chain walked one *)
(* attribute per step with early return, then the bad_attr fallback, then  *)
(* is_reverse; the per-trait result is appended to `out` and the next      *)
(* trait starts from scratch (per-entry error isolation).                  *)
(*                                                                         *)
(* Checked here, on the design alone:                                      *)
(*   MechIsDoc     the mechanism computes the documented outcome           *)
(*   CoherentInv   C02: whatever is accepted is mutually coherent          *)
(*   Isolation     C05: an error for one trait never changes another       *)
(*   Vacuity guards are computed by the orchestrator from the CFG lines.   *)
(* Every terminal state is printed as one JSON line: these are the test    *)
(* vectors replayed into the real code.                                    *)
(***************************************************************************)
EXTENDS DxCmp, Json

CONSTANT DSETS          \* "closed": the 11 supertrait-closed sets; "all": all 31 non-empty sets;
                        \* "tiny": two sets (development / self-test)

VARIABLES c, D, pc, ti, ci, out
vars == <<c, D, pc, ti, ci, out>>

ListOrder == <<"Ord", "PartialOrd", "Eq", "PartialEq", "Hash">>
DSeqOf(S) == SelectSeq(ListOrder, LAMBDA t : t \in S)
AllD == (SUBSET CmpTraits) \ {{}}
DChoices == IF DSETS = "closed" THEN {S \in AllD : SuperClosed(S)}
            ELSE IF DSETS = "quick" THEN {S \in AllD : SuperClosed(S) \/ Cardinality(S) = 1}      \* + every trait derived alone
            ELSE IF DSETS = "tiny" THEN {{"Ord", "PartialOrd", "Eq", "PartialEq"}, {"PartialEq", "Hash"}}
            ELSE AllD

Ds == DSeqOf(D)
e  == Eff(c, D)                 \* what the parser hands to the builders

Init ==
    /\ c \in FieldCfgs
    /\ D \in DChoices
    /\ pc = "entry" /\ ti = 1 /\ ci = 0 /\ out = <<>>

Emit(o) == /\ out' = Append(out, o) /\ ti' = ti + 1 /\ ci' = 0 /\ pc' = "entry"

\* is_ignore(op)?
IgnoreStep ==
    /\ pc = "entry" /\ ti <= Len(Ds)
    /\ LET t == Ds[ti] ig == MechIgnore(e, t)
       IN  IF ig = "err" THEN Emit(OutErr)
           ELSE IF ig = "yes" THEN Emit(OutSkip)
           ELSE /\ pc' = "walk" /\ ci' = 1 /\ UNCHANGED <<ti, out>>
    /\ UNCHANGED <<c, D>>

\* one attribute of the precedence chain per step
ReverseOf(t, s) ==
    LET rv == IF Ordered(t) THEN MechReverse(e, t) ELSE "no"
    IN  IF rv = "err" THEN OutErr ELSE Out("use", s.k, s.a, rv = "yes")

WalkStep ==
    /\ pc = "walk"
    /\ LET t == Ds[ti]
       IN  IF ci > Len(Chain(t))
           THEN LET s == WalkEnd(e)                       \* bad_attr or the default comparator
                IN  IF s.k = "err" THEN Emit(OutErr) ELSE Emit(ReverseOf(t, s))
           ELSE LET w == WalkAt(e, t, ci)
                IN  IF w.k = "next" THEN /\ ci' = ci + 1 /\ UNCHANGED <<pc, ti, out>>
                    ELSE Emit(ReverseOf(t, w))
    /\ UNCHANGED <<c, D>>

Finish ==
    /\ pc = "entry" /\ ti > Len(Ds)
    /\ pc' = "done"
    /\ UNCHANGED <<c, D, ti, ci, out>>

Next == IgnoreStep \/ WalkStep \/ Finish
Spec == Init /\ [][Next]_vars

(***************************************************************************)
(* Invariants                                                              *)
(***************************************************************************)
TypeOK ==
    /\ pc \in {"entry", "walk", "done"}
    /\ ti \in 1..6 /\ ci \in 0..5 /\ Len(out) = ti - 1

\* the pipeline never gets stuck before "done" (C16 on the model)
Progress == pc # "done" => ENABLED Next

\* the mechanism computes exactly the documented outcome, for every trait already emitted
MechIsDoc == \A i \in DOMAIN out : out[i] = DocOutcome(e, Ds[i])

\* per-entry isolation: the i-th result depends on (c, D) and the trait only - never on the
\* results of the entries before it
Isolation == \A i \in DOMAIN out : out[i] = MechOutcome(e, Ds[i])

\* the subject field followed by a plain field so that tie-breaking is exercised
ItemOf(cfg) == [kind |-> "struct",
                variants |-> <<[shape |-> "named", fields |-> <<[cmp |-> cfg, ty |-> "eq"], [cmp |-> PlainCfg, ty |-> "eq"]>>]>>]
\* all 6 subject values, and a differing trailing field behind two subject values that share a key
VSmall == {[v |-> 1, f |-> <<a, 0>>] : a \in Val} \cup {[v |-> 1, f |-> <<a, 1>>] : a \in {0, 1}}
VTrip  == VSmall

CoherentInv == pc = "done" => Coherent(ItemOf(c), D, "coherent", VSmall, VTrip)

\* the doc-level characterisation of C05's error cases coincides with the outcome
DocErrorCases ==
    pc = "done" =>
      \A i \in DOMAIN out :
        LET t == Ds[i]
            skips(tt)     == \E a \in CmpAttrs : Applies(a, tt) /\ e[a].ign
            customised(tt)== \E a \in CmpAttrs : Applies(a, tt) /\ Usable(a, tt, e[a].sel)
            partialIgnore == ~skips(t) /\ skips("PartialEq")
            mixCustom     == ~skips(t) /\ ~customised(t) /\ AnyCustom(e)
            badReverse    == ~skips(t) /\ t = "Ord" /\ e.partial_ord.rev
        IN  (out[i].o = "err") <=> (partialIgnore \/ mixCustom \/ badReverse)

(***************************************************************************)
(* Test-vector emission: one JSON line per terminal state                  *)
(***************************************************************************)
EmitCfg ==
    pc = "done" =>
      PrintT(<<"CFG", ToJson([c |-> c, D |-> Ds, out |-> out,
                              rec |-> SelectSeq(CmpAttrTable, LAMBDA a : Recognised(a, D))])>>)

=============================================================================
