------------------------------ MODULE MC_Default ------------------------------
(***************************************************************************)
(* C11 on the design: the variant-selection machine of build_default_for_  *)
(* enum (collect marked variants; 0 -> the only variant or error; 1 -> it; *)
(* >=2 -> error; a value on the chosen variant -> error), against the      *)
(* declarative DefaultVariant / DefaultRejected.  Exactly one of {value,   *)
(* error}; selection is a function of the item.                            *)
(***************************************************************************)
EXTENDS DxRun

Vs == {[dmark |-> d, vv |-> v, fields |-> <<>>] : d \in BOOLEAN, v \in {"none", "call"}}
Items == {[kind |-> k, tv |-> tv, variants |-> vs] :
            k \in {"struct", "enum"}, tv \in {"none", "call", "path"},
            vs \in UNION {[1..m -> Vs] : m \in 1..3}}

VARIABLES P, pc, k, marked, outcome
vars == <<P, pc, k, marked, outcome>>

Init == P \in {p \in Items : p.kind = "enum" \/ Len(p.variants) = 1} /\ pc = "start" /\ k = 1 /\ marked = <<>> /\ outcome = "?"

TypeValue ==
    /\ pc = "start"
    /\ IF P.tv # "none" THEN pc' = "done" /\ outcome' = "type_level"
       ELSE IF P.kind = "struct" THEN pc' = "done" /\ outcome' = "variant:1"
       ELSE pc' = "scan" /\ outcome' = outcome
    /\ UNCHANGED <<P, k, marked>>
Scan ==
    /\ pc = "scan" /\ k <= Len(P.variants)
    /\ marked' = IF P.variants[k].dmark THEN Append(marked, k) ELSE marked
    /\ k' = k + 1 /\ UNCHANGED <<P, pc, outcome>>
Select ==
    /\ pc = "scan" /\ k > Len(P.variants)
    /\ LET n == Len(marked)
           v == IF n = 1 THEN marked[1] ELSE IF n = 0 /\ Len(P.variants) = 1 THEN 1 ELSE 0
       IN  outcome' = IF v = 0 THEN "error" ELSE IF P.variants[v].vv # "none" THEN "error" ELSE "variant:" \o S(v)
    /\ pc' = "done" /\ UNCHANGED <<P, k, marked>>
Next == TypeValue \/ Scan \/ Select
Spec == Init /\ [][Next]_vars

MechIsDoc ==
    pc = "done" =>
        outcome = (IF DefaultRejected(P) THEN "error"
                   ELSE IF P.tv # "none" THEN "type_level" ELSE "variant:" \o S(DefaultVariant(P)))
ExactlyOne == pc = "done" => outcome # "?"
=============================================================================
