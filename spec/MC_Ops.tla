-------------------------------- MODULE MC_Ops --------------------------------
(***************************************************************************)
(* Operators (C08, C09) as small machines.                                 *)
(*  kind = "struct": an operator derived from a struct definition is       *)
(*     applied field by field (one step per field, as the generated        *)
(*     constructor expression evaluates its arguments in order).           *)
(*  kind = "impl": a derived form forwards to the user's impl: adapt left  *)
(*     operand, adapt right operand, call.                                 *)
(* TLC checks the form-independence laws on the design and prints every    *)
(* configuration (PLAN / IMPLCFG lines) as a test vector.                  *)
(***************************************************************************)
EXTENDS DxRun, Json

CONSTANT MAXN           \* largest number of fields (4 quick, 6 thorough)
Bool == BOOLEAN
VARIABLES kind, cfg, j, res, log, pc
vars == <<kind, cfg, j, res, log, pc>>

StructCfgs ==
    [ev : {"binop"}, op : BinOps, n : 0..MAXN, lref : Bool, rref : Bool] \cup
    [ev : {"assignop"}, op : BinOps, n : 0..MAXN, lref : {FALSE}, rref : Bool] \cup
    [ev : {"unop"}, op : UnOps, n : 0..MAXN, lref : Bool, rref : {FALSE}]
ImplCfgs ==
    [bl : {"v", "r"}, br : {"v", "r"}, want_bin : Bool, want_assign : Bool, base_is_assign : {FALSE}] \cup
    [bl : {"v"}, br : {"v", "r"}, want_bin : {TRUE}, want_assign : {FALSE}, base_is_assign : {TRUE}]

Init ==
    /\ \/ kind = "struct" /\ cfg \in StructCfgs
       \/ kind = "impl" /\ cfg \in {c \in ImplCfgs : c.want_bin \/ c.want_assign}
    /\ j = 1 /\ res = <<>> /\ log = <<>> /\ pc = "run"

FieldStep ==
    /\ kind = "struct" /\ pc = "run" /\ j <= cfg.n
    /\ res' = Append(res, IF cfg.ev = "unop" THEN UnTerm(cfg.op, j) ELSE BinTerm(cfg.op, j))
    /\ log' = Append(log, CASE cfg.ev = "binop" -> BinLog(cfg.op, cfg.n, cfg.lref, cfg.rref)[j]
                            [] cfg.ev = "assignop" -> AssignLog(cfg.op, cfg.n, cfg.rref)[j]
                            [] cfg.ev = "unop" -> UnLog(cfg.op, cfg.n, cfg.lref)[j])
    /\ j' = j + 1 /\ UNCHANGED <<kind, cfg, pc>>
StructDone ==
    /\ kind = "struct" /\ pc = "run" /\ j > cfg.n
    /\ pc' = "done" /\ UNCHANGED <<kind, cfg, j, res, log>>
ImplDone ==
    /\ kind = "impl" /\ pc = "run"
    /\ pc' = "done" /\ UNCHANGED <<kind, cfg, j, res, log>>
Next == FieldStep \/ StructDone \/ ImplDone
Spec == Init /\ [][Next]_vars

\* every reference form yields the owned form's result; op= leaves what op returns; one call per field
FormIndependent ==
    (kind = "struct" /\ pc = "done") =>
        /\ res = (IF cfg.ev = "unop" THEN UnResult(cfg.op, cfg.n) ELSE BinResult(cfg.op, cfg.n))
        /\ (cfg.ev = "assignop" => res = AssignPost(cfg.op, cfg.n))
        /\ Len(log) = cfg.n
\* user impl: generated forms never coincide with the user's own; clones are exactly the needed ones
ImplLaws ==
    (kind = "impl" /\ pc = "done" /\ ~cfg.base_is_assign) =>
        /\ <<cfg.bl, cfg.br>> \notin GeneratedBinForms(cfg.bl, cfg.br)
        /\ Cardinality(GeneratedBinForms(cfg.bl, cfg.br)) = 3
        /\ \A f \in GeneratedBinForms(cfg.bl, cfg.br) :
              LET p == BinFromBin(cfg.bl, cfg.br, f[1], f[2])
              IN  /\ p.calls = 1
                  /\ p.lclones = (IF f[1] = "r" /\ cfg.bl = "v" THEN 1 ELSE 0)
                  /\ p.rclones = (IF f[2] = "r" /\ cfg.br = "v" THEN 1 ELSE 0)
        \* a op= b computes what a op b computes
        /\ \A fr \in {"v", "r"} : AssignFromBin(cfg.bl, cfg.br, fr).post = BinFromBin(cfg.bl, cfg.br, "v", fr).result

EmitPlan ==
    pc = "done" =>
        IF kind = "struct" THEN PrintT(<<"PLAN", ToJson(cfg)>>) ELSE PrintT(<<"IMPLCFG", ToJson(cfg)>>)
=============================================================================
