-------------------------------- MODULE DxRun --------------------------------
(***************************************************************************)
(* Run-time meaning of the generated code for the non-comparison traits:   *)
(* Clone (C07), operators derived from a struct (C08), operators derived   *)
(* from a user impl (C09), Debug (C10), Default (C11), Deref (C18).        *)
(* Values of instrumented field types are abstract; what is specified is   *)
(* the result, the post-state and the LOG of calls the derived code makes  *)
(* on the field types.                                                     *)
(***************************************************************************)
EXTENDS DxBase

S(n) == ToString(n)

(***************************************************************************)
(* C07  Clone.  A value is [v |-> variant, f |-> Seq([tag, val])]; the     *)
(* driver builds field j with tag j-1, so cross-wiring is visible.         *)
(* doc: "Generates Clone::clone_from".                                     *)
(***************************************************************************)
CloneLog(x) == [j \in DOMAIN x.f |-> "clone:" \o S(x.f[j].tag) \o ":" \o S(x.f[j].val)]
CloneFromLog(a, b) ==
    IF a.v = b.v
    THEN [j \in DOMAIN a.f |-> "clone_from:" \o S(a.f[j].tag) \o ":" \o S(a.f[j].val) \o ":" \o S(b.f[j].tag) \o ":" \o S(b.f[j].val)]
    ELSE CloneLog(b)            \* different variants: the target is replaced by a clone of the source

(***************************************************************************)
(* C08  Operators derived from a struct definition (doc "Derive Add from   *)
(* struct definition"): field-wise, left operand on the left, each form    *)
(* applies the same form to the fields.                                    *)
(* Operand a has field leaves a0 a1 .., operand b has b0 b1 ..             *)
(***************************************************************************)
FnName(op) ==
    CASE op = "Add" -> "add" [] op = "BitAnd" -> "bitand" [] op = "BitOr" -> "bitor" [] op = "BitXor" -> "bitxor"
      [] op = "Div" -> "div" [] op = "Mul" -> "mul" [] op = "Rem" -> "rem" [] op = "Shl" -> "shl" [] op = "Shr" -> "shr"
      [] op = "Sub" -> "sub" [] op = "Neg" -> "neg" [] op = "Not" -> "not"
RefCh(isref) == IF isref THEN "r" ELSE "v"
LeafA(j) == "a" \o S(j - 1)
LeafB(j) == "b" \o S(j - 1)
BinTerm(op, j) == FnName(op) \o "(" \o LeafA(j) \o "," \o LeafB(j) \o ")"
UnTerm(op, j) == FnName(op) \o "(" \o LeafA(j) \o ")"

\* T op T, T op &T, &T op T, &T op &T
BinResult(op, n) == [j \in 1..n |-> BinTerm(op, j)]
BinLog(op, n, lref, rref) ==
    [j \in 1..n |-> FnName(op) \o ":" \o RefCh(lref) \o RefCh(rref) \o ":" \o LeafA(j) \o ":" \o LeafB(j)]
\* a op= b, a op= &b : a is updated in place
AssignPost(op, n) == BinResult(op, n)
AssignLog(op, n, rref) ==
    [j \in 1..n |-> FnName(op) \o "_assign:" \o RefCh(rref) \o ":" \o LeafA(j) \o ":" \o LeafB(j)]
\* op T, op &T
UnResult(op, n) == [j \in 1..n |-> UnTerm(op, j)]
UnLog(op, n, lref) == [j \in 1..n |-> FnName(op) \o ":" \o RefCh(lref) \o ":" \o LeafA(j)]
Leaves(c, n) == [j \in 1..n |-> c \o S(j - 1)]

(***************************************************************************)
(* C09  Operators derived from a user impl.  base = [l, r] says how the    *)
(* user's impl receives its operands ("v" / "r"); the user's body returns  *)
(* the term  base(<l>,<r>)  and logs one "call".  A derived form receives  *)
(* (fl, fr).  doc "Derive Add from impl Add" / "AddAssign from impl Add" / *)
(* "Add from impl AddAssign".                                              *)
(***************************************************************************)
NeedsClone(received, wanted) == received = "r" /\ wanted = "v"

\* derived binary form (fl, fr) from base binary (bl, br): exactly one base call, operands in order
BinFromBin(bl, br, fl, fr) ==
    [calls |-> 1, lclones |-> IF NeedsClone(fl, bl) THEN 1 ELSE 0, rclones |-> IF NeedsClone(fr, br) THEN 1 ELSE 0,
     result |-> "base(L,R)"]

\* which binary forms are generated: all four minus the user's own
GeneratedBinForms(bl, br) == {<<l, r>> : l \in {"v", "r"}, r \in {"v", "r"}} \ {<<bl, br>>}

\* a op= b derived from base binary (bl, br).  `both`: Op and OpAssign requested together (then
\* op= exists for Rhs and &Rhs); otherwise only for the base's own Rhs form.
\* self arrives as &mut (a reference); rhs arrives as fr.
AssignFromBin(bl, br, fr) ==
    [calls |-> 1, lclones |-> IF bl = "v" THEN 1 ELSE 0, rclones |-> IF NeedsClone(fr, br) THEN 1 ELSE 0,
     post |-> "base(L,R)"]
AssignRhsForms(bl, br, both) == IF both THEN {"v", "r"} ELSE {br}

\* a op b derived from the user's  impl OpAssign<Rhs> for T :  { a op= b; a }
BinFromAssign == [calls |-> 1, lclones |-> 0, rclones |-> 0, result |-> "assigned(L,R)"]

(***************************************************************************)
(* C10  Debug.  Text is a sequence of lines.  A leaf is the rendering of   *)
(* a field by its own Debug impl (a sequence of lines as well).            *)
(* Follows core::fmt::DebugStruct / DebugTuple, which the standard derive  *)
(* and derive_ex both call.                                                *)
(***************************************************************************)
Indent(lines) == [i \in DOMAIN lines |-> "    " \o lines[i]]
WithLastSuffix(lines, suf) == [i \in DOMAIN lines |-> IF i = Len(lines) THEN lines[i] \o suf ELSE lines[i]]
WithFirstPrefix(lines, pre) == [i \in DOMAIN lines |-> IF i = 1 THEN pre \o lines[i] ELSE lines[i]]

RECURSIVE JoinInline(_, _)
JoinInline(parts, i) == IF i > Len(parts) THEN "" ELSE (IF i > 1 THEN ", " ELSE "") \o parts[i] \o JoinInline(parts, i + 1)

\* fields: Seq([name, leaf]) where leaf is the field's own one-line {:?} text; named: BOOLEAN
RenderPlain(name, named, fields) ==
    IF Len(fields) = 0 THEN name
    ELSE IF named
         THEN name \o " { " \o JoinInline([i \in DOMAIN fields |-> fields[i].name \o ": " \o fields[i].leaf], 1) \o " }"
         ELSE name \o "(" \o JoinInline([i \in DOMAIN fields |-> fields[i].leaf], 1) \o ")"

\* alternate form: fields[i].alt is the field's own {:#?} text as lines
RECURSIVE AltFieldLines(_, _, _)
AltFieldLines(named, fields, i) ==
    IF i > Len(fields) THEN <<>>
    ELSE LET pre == IF named THEN fields[i].name \o ": " ELSE ""
             body == WithLastSuffix(WithFirstPrefix(fields[i].alt, pre), ",")
         IN  Indent(body) \o AltFieldLines(named, fields, i + 1)
RenderAlt(name, named, fields) ==
    IF Len(fields) = 0 THEN <<name>>
    ELSE <<name \o (IF named THEN " {" ELSE "(")>> \o AltFieldLines(named, fields, 1) \o <<IF named THEN "}" ELSE ")">>

\* the documented plan: transparent field -> that field alone; else the non-ignored fields
\* f.dbg: "none" | "ignore" | "transparent" | "both" (#[debug(transparent, ignore)]: transparent is unconditional in the doc)
DebugShown(fields) == SelectSeq(fields, LAMBDA f : f.dbg \notin {"ignore", "both"})
DebugTransparent(fields) == SelectSeq(fields, LAMBDA f : f.dbg \in {"transparent", "both"})
DebugRejected(fields) == Len(DebugTransparent(fields)) > 1

(***************************************************************************)
(* C11  Default.  Provenance of every field of the returned value.         *)
(*   kinds of #[default(e)] expressions and what the field must record:    *)
(***************************************************************************)
\* Into is applied exactly for a string literal or a path
NeedsInto(kind) == kind \in {"str", "empty_str", "path", "assoc_path", "into_path", "qself_path", "turbofish_path", "own_assoc_path"}
FieldDefault(f) ==
    CASE f.dv = "none"       -> "default()"          \* no attribute, or #[default(_)] / #[default]
      [] f.dv = "str"        -> "from_str:abc"       \* #[default("abc")]            -> Into
      [] f.dv = "empty_str"  -> "from_str:"          \* #[default("")]: a string literal like any other -> Into
      [] f.dv = "path"       -> "from_src:7"         \* #[default(SRC7)] (a Src)     -> Into
      [] f.dv = "assoc_path" -> "from_src:3"         \* #[default(Holder::SRC3)]     -> Into
      [] f.dv = "into_path"  -> "into_srci:8"        \* #[default(SRCI8)]: a type with a hand-written Into<Field> only (no From)
      [] f.dv = "qself_path" -> "from_src:2"         \* #[default(<Holder as HasSrc>::SRC2)]: a path with a qualified self type is a path -> Into
      [] f.dv = "own_assoc_path" -> "from_src:4"     \* #[default(Pr::RAW4)] on a field of type Pr: a path that starts with the field's own type name is a path -> Into
      [] f.dv = "turbofish_path" -> "from_src:1"     \* #[default(HolderG::<u8>::SRC1)]: generic arguments on a segment: still a path -> Into
      [] f.dv = "call"       -> "call:5"             \* #[default(mk(5))]            as is
      [] f.dv = "block"      -> "call:6"             \* #[default({ mk(6) })]        as is
      [] f.dv = "method"     -> "call:4"             \* #[default(mk(4).same())]     as is
      [] f.dv = "int"        -> "int:5"              \* #[default(5)] on a u8 field: as is (Into would infer i32 and fail)
      [] f.dv = "neg"        -> "int:-3"             \* #[default(-3)] on an i8 field: as is
      [] f.dv = "bytes"      -> "bytes:[97, 98]"     \* #[default(b"ab")] on a &'static [u8] field: as is (only string literals and paths go through Into)

\* which variant default() constructs; 0 = rejected
DefaultVariant(P) ==
    IF P.kind = "struct" THEN 1
    ELSE LET marked == {i \in DOMAIN P.variants : P.variants[i].dmark}
         IN  IF Cardinality(marked) = 1 THEN CHOOSE i \in marked : TRUE
             ELSE IF Cardinality(marked) = 0 /\ Len(P.variants) = 1 THEN 1
             ELSE 0
\* a value on a variant's #[default(..)] is rejected
DefaultRejected(P) ==
    /\ P.tv = "none"
    /\ \/ DefaultVariant(P) = 0
       \/ (P.kind = "enum" /\ P.variants[DefaultVariant(P)].vv # "none")

(***************************************************************************)
(* C18  Deref / DerefMut                                                   *)
(***************************************************************************)
DerefAccepted(nfields) == nfields = 1
=============================================================================
