------------------------------- MODULE MC_Life -------------------------------
(***************************************************************************)
(* The life-cycle machine: a user declares an item (setup phase: kind and  *)
(* derive list, variants, the comparison attributes of every field, which  *)
(* optional traits are derived) and then calls the derived API on a pool   *)
(* of variables, one call per step (DxLife.Step / Result / CallLog).       *)
(*                                                                         *)
(* Every choice is an ordinary nondeterministic step with few successors   *)
(* (the user first decides WHAT to call, then with which arguments), so    *)
(* `tlc -simulate` draws varied items and histories; the same machine is   *)
(* model-checked exhaustively with small constants (MC_Life_bfs.cfg) for   *)
(* the cross-trait laws.  Behaviours are printed as LIFE vectors and       *)
(* replayed into the real derived impls; Trace_Life judges what they did.  *)
(***************************************************************************)
EXTENDS DxLife, Json

CONSTANTS
    VARS,        \* names of the program variables
    SETVALS,     \* values the user writes into fields
    MAXV,        \* most variants of an enum
    MAXF,        \* most fields of a variant
    HLEN,        \* length of the printed histories (0: never print, exhaustive mode)
    PALETTE,     \* "full" | "small"
    FOCUS        \* "any" | "ops" (structs deriving the operators) | "deref" (single-field structs deriving Deref / DerefMut)

VARIABLES L, pool, hist, pc, todo
vars == <<L, pool, hist, pc, todo>>

(***************************************************************************)
(* what a user may write on a field                                        *)
(***************************************************************************)
Ign == Opt(TRUE, FALSE, "none")
Rev == Opt(FALSE, TRUE, "none")
Key == Opt(FALSE, FALSE, "key")
By  == Opt(FALSE, FALSE, "by")
RevKey == Opt(FALSE, TRUE, "key")
IdKey == Opt(FALSE, FALSE, "idkey")
FullPalette ==
    {PlainCfg,
     [PlainCfg EXCEPT !.ord = Ign], [PlainCfg EXCEPT !.ord = Rev], [PlainCfg EXCEPT !.ord = Key], [PlainCfg EXCEPT !.ord = RevKey],
     [PlainCfg EXCEPT !.ord = By], [PlainCfg EXCEPT !.hash = Ign], [PlainCfg EXCEPT !.eq = Key, !.ord = Key],
     [PlainCfg EXCEPT !.partial_ord = Rev], [PlainCfg EXCEPT !.eq = Ign], [PlainCfg EXCEPT !.partial_eq = Ign],
     [PlainCfg EXCEPT !.hash = Key, !.ord = Key], [PlainCfg EXCEPT !.hash = By, !.eq = Key], [PlainCfg EXCEPT !.partial_eq = Key],
     [PlainCfg EXCEPT !.partial_eq = By], [PlainCfg EXCEPT !.eq = By], [PlainCfg EXCEPT !.hash = Key],
     [PlainCfg EXCEPT !.partial_ord = Key, !.ord = Rev], [PlainCfg EXCEPT !.partial_ord = By, !.partial_eq = By],
     \* `key = $` on the more specific attribute opts out of the less specific attribute's key
     [PlainCfg EXCEPT !.hash = IdKey, !.ord = Key], [PlainCfg EXCEPT !.eq = IdKey, !.ord = RevKey], [PlainCfg EXCEPT !.partial_ord = IdKey, !.ord = Key],
     [PlainCfg EXCEPT !.hash = IdKey, !.eq = Key]}
SmallPalette == {PlainCfg, [PlainCfg EXCEPT !.ord = Ign], [PlainCfg EXCEPT !.ord = RevKey], [PlainCfg EXCEPT !.hash = Ign]}
Palette == IF PALETTE = "full" THEN FullPalette ELSE SmallPalette

\* a user only writes attributes that belong to a derived trait, in a combination derive_ex accepts for every derived trait
OKCfgs(D) == {c \in Palette : /\ \A a \in CmpAttrs : c[a] # NoOpt => Recognised(a, D)
                              /\ \A t \in D : FieldAccepted(c, t, D)}

DLists == {<<>>, <<"PartialEq">>, <<"Hash">>, <<"PartialEq", "Eq">>, <<"Hash", "PartialEq">>, <<"Eq", "PartialEq", "Hash">>,
           <<"PartialOrd", "PartialEq">>, <<"PartialEq", "PartialOrd", "Hash">>, <<"PartialOrd", "Eq", "PartialEq">>,
           <<"Ord", "PartialOrd", "Eq", "PartialEq">>, <<"Ord", "PartialOrd", "Eq", "PartialEq", "Hash">>,
           <<"Hash", "PartialEq", "Eq", "PartialOrd", "Ord">>}
SmallDLists == {<<>>, <<"PartialEq", "Hash">>, <<"Ord", "PartialOrd", "Eq", "PartialEq", "Hash">>}
DChoices == IF PALETTE = "full" THEN DLists ELSE SmallDLists

NoItem == [kind |-> "none", variants |-> <<>>, D |-> <<>>, mode |-> "coherent", ops |-> FALSE, deref |-> FALSE, dvar |-> 0]
NoPool == [x \in VARS |-> [v |-> 0, f |-> <<>>]]
VName(i) == "V" \o ToString(i)

Init == L = NoItem /\ pool = NoPool /\ hist = <<>> /\ pc = "s_kind" /\ todo = 0

(***************************************************************************)
(* setup phase                                                             *)
(***************************************************************************)
SKind ==
    /\ pc = "s_kind"
    /\ \E k \in {"struct", "enum"}, D \in DChoices, m \in {"coherent", "distinct"} :
          /\ (FOCUS # "any" => k = "struct")
          /\ L' = [NoItem EXCEPT !.kind = k, !.D = D, !.mode = m]
    /\ pc' = "s_variant" /\ UNCHANGED <<pool, hist, todo>>

\* declare the next variant (a struct is one variant), or close the item
SVariant ==
    /\ pc = "s_variant"
    /\ \/ /\ Len(L.variants) < (IF L.kind = "struct" THEN 1 ELSE MAXV)
          /\ \E sh \in {"unit", "tuple", "named"}, n \in 0..MAXF :
                /\ (sh = "unit") = (n = 0)
                /\ (FOCUS = "deref" => n = 1)
                /\ L' = [L EXCEPT !.variants = Append(@, [shape |-> sh, name |-> IF L.kind = "struct" THEN "Lf" ELSE VName(Len(@) + 1), fields |-> <<>>])]
                /\ todo' = n
                /\ pc' = IF n = 0 THEN "s_variant" ELSE "s_field"
          /\ UNCHANGED <<pool, hist>>
       \/ /\ Len(L.variants) >= 1
          /\ (L.kind = "struct" \/ Len(L.variants) >= 1)
          /\ pc' = "s_flags" /\ UNCHANGED <<L, pool, hist, todo>>

SField ==
    /\ pc = "s_field" /\ todo > 0
    /\ \E c \in OKCfgs(DS(L)) :
          L' = [L EXCEPT !.variants[Len(L.variants)].fields = Append(@, [cmp |-> c, ty |-> "w", name |-> "f" \o ToString(Len(@))])]
    /\ todo' = todo - 1
    /\ pc' = IF todo = 1 THEN "s_variant" ELSE "s_field"
    /\ UNCHANGED <<pool, hist>>

\* optional traits; then every variable starts as the first value of the type
SFlags ==
    /\ pc = "s_flags"
    /\ \E ops \in BOOLEAN, deref \in BOOLEAN, dv \in 0..Len(L.variants) :
          /\ ops => L.kind = "struct"                                \* operators are derived from STRUCT definitions
          /\ deref => (L.kind = "struct" /\ LNF(L, 1) = 1)           \* Deref needs exactly one field
          /\ (L.kind = "struct") => dv \in {0, 1}
          /\ (FOCUS = "ops" => ops) /\ (FOCUS = "deref" => deref)
          /\ L' = [L EXCEPT !.ops = ops, !.deref = deref, !.dvar = dv]
          /\ pool' = [x \in VARS |-> LSet(1, [j \in 1..LNF(L, 1) |-> 0])]
    /\ pc' = "idle" /\ UNCHANGED <<hist, todo>>

(***************************************************************************)
(* use phase: pick the call, then its arguments                            *)
(***************************************************************************)
Kinds == Mutators \cup Observers
Probe(k) == Act(k, "-", "-", "-", "-", FALSE, FALSE, 0, <<>>)
Pick ==
    /\ pc = "idle"
    /\ (HLEN > 0 => Len(hist) < HLEN)
    /\ \E k \in Kinds : Offered(L, Probe(k)) /\ pc' = k
    /\ UNCHANGED <<L, pool, hist, todo>>

\* the values a user writes: field j = base + (j-1) * step (mod 6), every base and step of SETVALS - equal fields, rising and
\* falling fields, without making `set` the only thing a random walk ever does
ValTuples(n) == {[j \in 1..n |-> (b + (j - 1) * s) % 6] : b \in SETVALS, s \in SETVALS}

Args(k) ==
    CASE k = "set" -> {Act(k, d, "-", "-", "-", FALSE, FALSE, vi, vals) : d \in VARS, <<vi, vals>> \in
                          UNION {{<<i, t>> : t \in ValTuples(LNF(L, i))} : i \in DOMAIN L.variants}}
      [] k = "default" -> {Act(k, d, "-", "-", "-", FALSE, FALSE, 0, <<>>) : d \in VARS}
      [] k \in {"clone", "clone_from"} -> {Act(k, d, s, "-", "-", FALSE, FALSE, 0, <<>>) : <<d, s>> \in {p \in VARS \X VARS : p[1] # p[2]}}
      [] k = "bin" -> {Act(k, d, a, b, op, lr, rr, 0, <<>>) : d \in VARS, a \in VARS, b \in VARS, op \in {"add", "sub"}, lr \in BOOLEAN, rr \in BOOLEAN}
      [] k = "assign" -> {Act(k, d, a, "-", op, FALSE, rr, 0, <<>>) : d \in VARS, a \in VARS, op \in {"add", "sub"}, rr \in BOOLEAN}
      [] k = "un" -> {Act(k, d, a, "-", "neg", lr, FALSE, 0, <<>>) : d \in VARS, a \in VARS, lr \in BOOLEAN}
      [] k = "deref_write" -> {Act(k, d, "-", "-", "-", FALSE, FALSE, 0, <<v>>) : d \in VARS, v \in SETVALS}
      [] k \in {"eq", "pcmp", "cmp"} -> {Act(k, "-", a, b, "-", FALSE, FALSE, 0, <<>>) : a \in VARS, b \in VARS}
      [] k \in {"hash", "debug", "debug_alt", "deref_read"} -> {Act(k, "-", a, "-", "-", FALSE, FALSE, 0, <<>>) : a \in VARS}

Call ==
    /\ pc \in Kinds
    /\ \E x \in Args(pc) :
          /\ pool' = Step(L, pool, x)
          /\ hist' = Append(hist, x)
    /\ pc' = "idle" /\ UNCHANGED <<L, todo>>

\* one LIFE vector per behaviour of length HLEN (printed by the only action enabled at its end)
Done ==
    /\ HLEN > 0 /\ pc = "idle" /\ Len(hist) = HLEN
    /\ PrintT(<<"LIFE", ToJson([L |-> L, hist |-> hist])>>)
    /\ pc' = "done" /\ UNCHANGED <<L, pool, hist, todo>>

Next == SKind \/ SVariant \/ SField \/ SFlags \/ Pick \/ Call \/ Done
Spec == Init /\ [][Next]_vars

(***************************************************************************)
(* invariants                                                              *)
(***************************************************************************)
InUse == pc \in {"idle"} \cup Kinds
ValueOK(x) == /\ x.v \in DOMAIN L.variants
              /\ Len(x.f) = LNF(L, x.v)
              /\ \A j \in DOMAIN x.f : x.f[j].val \in 0..5 /\ x.f[j].tag \in {j - 1, 7, 9}
\* the pool only ever holds values of the declared type (operators are closed over it, clone_from across variants replaces, ...)
TypeOK == InUse => \A x \in VARS : ValueOK(pool[x])
\* every item the setup phase can declare is accepted by derive_ex for every derived trait
ItemOK == InUse => \A t \in DS(L) : ItemAccepted(L, t, DS(L))
\* the cross-trait laws, on every reachable state and for every pair of variables
Laws ==
    pc = "idle" =>
        \A d, s \in VARS : d # s =>
            /\ CloneIndistinguishable(L, pool, d, s)
            /\ CloneFromIsClone(L, pool, d, s)
            /\ (L.ops => \A op \in {"add", "sub"} : AssignIsBin(L, pool, d, s, op))
\* Eq / Ord / Hash coherence (C02) on the values the variables hold now, when all keys on a field express one key
CoherentNow ==
    (pc = "idle" /\ L.mode = "coherent") =>
        LET VS == {Vals(pool[x]) : x \in VARS} IN Coherent(L, DS(L), "coherent", VS, VS)
\* observers never change a variable (action property)
ObserversPure == [][(pc \in Observers) => pool' = pool]_vars

VIEW_NoHist == <<L, pool, pc, todo>>
=============================================================================
