------------------------------- MODULE MC_Expand -------------------------------
(***************************************************************************)
(* The expander as ONE machine, from the macro call to the emitted tokens, *)
(* shaped like lib.rs `build` / item_type.rs `build_by_item_*_core`:       *)
(*                                                                         *)
(*   dispatch -> parse_lists -> resolve_traits -> kinds -> type_attrs      *)
(*            -> members -> loop(i = 1..n) -> strip -> emit -> done        *)
(*                                                                         *)
(* Every `?` of the code is an edge to "strip" with err = TRUE (the whole  *)
(* derivation fails: nothing generated so far survives); a failing entry   *)
(* inside the loop is NOT such an edge, it only puts "error" in its place. *)
(* TLC checks that the machine                                             *)
(*   - never gets stuck before "done" and always reaches it (totality),    *)
(*   - has exactly one enabled action in every state (determinism),        *)
(*   - ends in the outcome the documentation-level DxExpand predicts       *)
(*     (WholeError / EntryClassesD / RemovedNames) for EVERY descriptor of *)
(*     the bounded language, malformed ones included,                      *)
(* and prints one PIPE test vector per terminal state; checks_exp replays  *)
(* each vector into the real expander (C16, own events).                   *)
(***************************************************************************)
EXTENDS DxExpand, Json
CONSTANTS SPACE            \* "small" | "large"

VARIABLES P, entry, pc, kinds, es, i, out, err, removed
vars == <<P, entry, pc, kinds, es, i, out, err, removed>>

Alpha == IF SPACE = "small" THEN {"Clone", "Debug", "Default", "Deref", "Add", "Foo"}
         ELSE {"Clone", "Debug", "Default", "Deref", "Add", "Foo", "Hash", "PartialOrd", "Neg"}
MaxTraits == 2
\* listed names are pairwise different: the observer attributes generated impls to entries by trait name
TraitSeqs == UNION {{f \in [1..n -> Alpha] : \A a, b \in 1..n : a # b => f[a] # f[b]} : n \in 1..MaxTraits}
Helpers == IF SPACE = "small" THEN {"debug", "ord"} ELSE {"debug", "default", "ord", "hash"}
Whats   == IF SPACE = "small" THEN {"twice", "bad_arg"} ELSE {"twice", "name_value", "bad_arg"}
Combos  == {<<0, 0>>, <<1, 0>>, <<1, 1>>, <<2, 0>>, <<2, 1>>, <<2, 2>>}     \* <<n, marked-or-transparent among n>>

Places(kind, nf, nv) ==
    {"type"} \cup (IF kind = "enum" /\ nv >= 1 THEN {"variant"} ELSE {})
             \cup (IF nf >= 1 /\ (kind = "struct" \/ nv >= 1) THEN {"field"} ELSE {})
AnomSeqs(kind, nf, nv) ==
    {<<>>}
    \cup {<<[h |-> h, what |-> w, at |-> a]>> : h \in Helpers, w \in Whats, a \in Places(kind, nf, nv)}
    \cup {<<[h |-> "derive_ex", what |-> w, at |-> a]>> : w \in {"unknown_trait", "bad_arg"}, a \in Places(kind, nf, nv) \ {"type"}}

WellFormed(p) ==
    /\ p.kind = "struct" => p.nvariants = 1 /\ p.nmarked = 0
    /\ p.kind = "enum" /\ p.nvariants = 0 => p.nfields = 0 /\ p.ntransp = 0
    /\ p.anomalies \in AnomSeqs(p.kind, p.nfields, p.nvariants)
    /\ ~p.syntax_ok => p.dump = "none" /\ Len(p.traits) = 2          \* `A B` is the unreadable list; one trait alone is always readable
OtherDescriptors ==
    {[kind |-> k, syntax_ok |-> s, traits |-> tr, nfields |-> 0, ntransp |-> 0, nvariants |-> 1, nmarked |-> 0,
      anomalies |-> <<>>, dump |-> "none"] : k \in {"union", "other"}, s \in {TRUE}, tr \in TraitSeqs}

Entries2(p) == IF p.kind = "other" THEN {"attr"} ELSE {"attr", "derive"}    \* rustc accepts #[derive] on struct / enum / union only

\* struct / enum: everything varies (an unreadable list is crossed with the rest only without dump: it fails as a whole anyway)
Init ==
    /\ \/ \E k \in {"struct", "enum"}, s \in BOOLEAN, tr \in TraitSeqs, fc \in Combos, vc \in Combos,
              an \in AnomSeqs("enum", 2, 2), d \in {"none", "all", "first"} :
              LET p == [kind |-> k, syntax_ok |-> s, traits |-> tr, nfields |-> fc[1], ntransp |-> fc[2], nvariants |-> vc[1],
                        nmarked |-> vc[2], anomalies |-> an, dump |-> d]
              IN  WellFormed(p) /\ P = p
       \/ P \in OtherDescriptors
    /\ entry \in Entries2(P)
    /\ pc = "dispatch" /\ kinds = {"derive_ex"} /\ es = <<>> /\ i = 0 /\ out = <<>> /\ err = FALSE /\ removed = {}

Fail(next) == err' = TRUE /\ out' = <<>> /\ pc' = next

\* lib.rs build: only struct / enum (/ impl, modelled in DxExpand!ImplError) go on; derive: unions are refused
Dispatch ==
    /\ pc = "dispatch"
    /\ IF P.kind \in {"struct", "enum"} THEN pc' = "parse_lists" /\ UNCHANGED <<err, out>>
       ELSE Fail("emit")                                   \* no remove_attrs on this path: the item is re-emitted as it is
    /\ UNCHANGED <<P, entry, kinds, es, i, removed>>

\* DeriveEntry::from_root: parse2(attr)? and parse_derive_ex_attrs(attrs)?
ParseLists ==
    /\ pc = "parse_lists"
    /\ IF P.syntax_ok THEN pc' = "resolve_traits" /\ UNCHANGED <<err, out>> ELSE Fail("strip")
    /\ UNCHANGED <<P, entry, kinds, es, i, removed>>

\* from_args_list: DeriveItemKind::from_ident(..)? for each listed name, in order
ResolveTraits ==
    /\ pc = "resolve_traits"
    /\ IF \A k \in DOMAIN P.traits : Known(P.traits[k])
       THEN es' = P.traits /\ pc' = "kinds" /\ UNCHANGED <<err, out>>
       ELSE Fail("strip") /\ UNCHANGED es
    /\ UNCHANGED <<P, entry, kinds, i, removed>>

\* kinds.extend(&es): which helper attributes belong to derive_ex for this item
Kinds ==
    /\ pc = "kinds"
    /\ kinds' = kinds \cup {h \in HelperAttrs : Recognised(h, Range(es))}
    /\ pc' = "type_attrs"
    /\ UNCHANGED <<P, entry, es, i, out, err, removed>>

Hits(places, ks) == \E k \in DOMAIN P.anomalies : P.anomalies[k].at \in places /\ P.anomalies[k].h \in ks

\* HelperAttributes::from_attrs(&item.attrs, Type, &kinds.without_derive_ex())?
TypeAttrs ==
    /\ pc = "type_attrs"
    /\ IF Hits({"type"}, kinds \ {"derive_ex"}) THEN Fail("strip") ELSE pc' = "members" /\ UNCHANGED <<err, out>>
    /\ UNCHANGED <<P, entry, kinds, es, i, removed>>

\* FieldEntry::from_fields(..)? / VariantEntry::from_variants(..)?  (a nested #[derive_ex] is parsed here too)
Members ==
    /\ pc = "members"
    /\ IF Hits({"variant", "field"}, kinds) THEN Fail("strip") /\ UNCHANGED i
       ELSE pc' = "loop" /\ i' = 1 /\ UNCHANGED <<err, out>>
    /\ UNCHANGED <<P, entry, kinds, es, removed>>

\* for e in es { .. ts_all.extend(e.apply_dump(result)) }; on an enum `_ => bail!` leaves the loop
Loop ==
    /\ pc = "loop"
    /\ IF i > Len(es) THEN pc' = "strip" /\ UNCHANGED <<err, out, i>>
       ELSE IF ~SupportedOn(P.kind, es[i]) THEN Fail("strip") /\ UNCHANGED i
       ELSE /\ out' = Append(out, EntryClass(~EntryError(P, es[i]), Dumped(P, i)))
            /\ i' = i + 1 /\ UNCHANGED <<err, pc>>
    /\ UNCHANGED <<P, entry, kinds, es, removed>>

\* build_by_item_*: remove_attrs(.., &kinds) on the type, its variants and fields - attribute entry only,
\* with whatever `kinds` had become when the core returned
Strip ==
    /\ pc = "strip"
    /\ removed' = IF entry = "attr" THEN kinds ELSE {}
    /\ pc' = "emit"
    /\ UNCHANGED <<P, entry, kinds, es, i, out, err>>

Emit ==
    /\ pc = "emit" /\ pc' = "done"
    /\ UNCHANGED <<P, entry, kinds, es, i, out, err, removed>>

Done == pc = "done" /\ UNCHANGED vars

Next == Dispatch \/ ParseLists \/ ResolveTraits \/ Kinds \/ TypeAttrs \/ Members \/ Loop \/ Strip \/ Emit \/ Done
Spec == Init /\ [][Next]_vars /\ WF_vars(Next)

(***************************************************************************)
(* Properties                                                              *)
(***************************************************************************)
PCs == {"dispatch", "parse_lists", "resolve_traits", "kinds", "type_attrs", "members", "loop", "strip", "emit", "done"}
TypeOK ==
    /\ pc \in PCs /\ kinds \subseteq OwnAttrs /\ removed \subseteq OwnAttrs /\ err \in BOOLEAN
    /\ i \in 0..(MaxTraits + 1) /\ Len(out) <= MaxTraits

\* totality + determinism: in every state exactly one action is enabled
EnabledCount ==
    Cardinality({a \in 1..10 :
        CASE a = 1 -> ENABLED Dispatch [] a = 2 -> ENABLED ParseLists [] a = 3 -> ENABLED ResolveTraits [] a = 4 -> ENABLED Kinds
          [] a = 5 -> ENABLED TypeAttrs [] a = 6 -> ENABLED Members [] a = 7 -> ENABLED Loop [] a = 8 -> ENABLED Strip
          [] a = 9 -> ENABLED Emit [] a = 10 -> ENABLED Done})
Deterministic == EnabledCount = 1

\* the code-shaped pipeline ends where the documentation-level model says
MechIsDoc ==
    pc = "done" =>
        /\ err = WholeError(P)
        /\ (~err => out = EntryClassesD(P))
        /\ (err => out = <<>>)
        /\ (entry = "attr" => removed = RemovedNames(P))
        /\ (entry = "derive" => removed = {})

\* foreign attributes are never removed, derive_ex's own always is when the item is a struct / enum (C14's weak contract)
StripContract ==
    pc = "done" /\ entry = "attr" /\ P.kind \in {"struct", "enum"} => "derive_ex" \in removed

Emitted ==
    pc = "done" => PrintT(<<"PIPE", ToJson([P |-> P, entry |-> entry, err |-> err, out |-> out, removed |-> removed])>>)

\* nothing generated is ever dropped except by a whole failure; recognition only grows
GrowOnly == [][(kinds \subseteq kinds') /\ (err' \/ (Len(out') >= Len(out) /\ SubSeq(out', 1, Len(out)) = out))]_vars
ErrIsFinal == [][err => err']_vars
Terminates == <>(pc = "done")
=============================================================================
