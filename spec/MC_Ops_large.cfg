CONSTANT MAXN = 6
SPECIFICATION Spec
INVARIANTS FormIndependent ImplLaws EmitPlan
CHECK_DEADLOCK FALSE
