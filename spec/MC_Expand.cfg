SPECIFICATION Spec
CONSTANT SPACE = "small"
INVARIANT TypeOK
INVARIANT Deterministic
INVARIANT MechIsDoc
INVARIANT StripContract
INVARIANT Emitted
PROPERTY GrowOnly
PROPERTY ErrIsFinal
PROPERTY Terminates
CHECK_DEADLOCK TRUE
