------------------------------ MODULE Emit_Bounds ------------------------------
(***************************************************************************)
(* Generation step for the behavioural half of C03: reads item descriptors *)
(* (one per line) and prints, for each, the where-clause the specification *)
(* prescribes (DocWhere) as a set of origin tags.  The harness builds from *)
(* these tags a hand-written TWIN impl; rustc's trait solver then decides, *)
(* for every instantiation of the parameters by probe types, whether the   *)
(* derived impl and the twin apply - the two bit matrices must coincide.   *)
(***************************************************************************)
EXTENDS DxBounds, Json, IOUtils

Rec == ndJsonDeserialize(IOEnv.TRACE)
VARIABLE l
Init == l = 1
Next == l <= Len(Rec) /\ l' = l + 1
Spec == Init /\ [][Next]_l
Emit == l <= Len(Rec) => PrintT(<<"WHERE", ToJson([i |-> l, w |-> DocWhere(Rec[l].P)])>>)
=============================================================================
