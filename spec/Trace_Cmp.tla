------------------------------ MODULE Trace_Cmp ------------------------------
(***************************************************************************)
(* Trace specification for the comparison family.  Every line of the trace *)
(* is one observation of the REAL code (in-process expansion, or a program *)
(* compiled with the genuine proc-macro and executed).  A line is accepted *)
(* iff it is exactly what DxCmp prescribes for the descriptor it carries.  *)
(*                                                                         *)
(* The events are independent, so validation never stops at the first      *)
(* surprise: every line is consumed, the indices of unexplained lines are  *)
(* accumulated in `bad` and printed at the end together with the number of *)
(* lines consumed (the orchestrator insists that this equals the length of *)
(* the trace, so the spec cannot accept by not looking).                   *)
(***************************************************************************)
EXTENDS DxCmp, Json, IOUtils

Rec == ndJsonDeserialize(IOEnv.TRACE)

VARIABLES l, bad
tvars == <<l, bad>>

B2I(b) == IF b THEN 1 ELSE 0
DSet(e) == Range(e.D)

\* ---- value domain used by the driver: field j takes the values 0 .. dom-1 ----
RECURSIVE TuplesDom(_, _)
TuplesDom(fs, n) ==
    IF n = 0 THEN {<<>>}
    ELSE {Append(s, v) : s \in TuplesDom(fs, n - 1), v \in (0..(fs[n].dom - 1)) \cup (IF fs[n].nan THEN {NaN} ELSE {})}
ValuesOf(P) ==
    UNION {{[v |-> vi, f |-> s] : s \in TuplesDom(P.variants[vi].fields, Len(P.variants[vi].fields))}
           : vi \in DOMAIN P.variants}

\* ---- expansion: which derived traits got an impl, which an error ----
ExplainsExpand(e) ==
    LET O == Outcomes(e.P, DSet(e))
        classes_ok ==
            IF Misplaced(e.P, DSet(e))
            THEN \* the whole derivation is refused: no impl at all, at least one error
                 /\ \A t \in CmpTraits : e.classes[t] # "impl"
                 /\ \E t \in DSet(e) : e.classes[t] = "error"
            ELSE \A t \in CmpTraits :
                   e.classes[t] = IF t \notin DSet(e) THEN "none"
                                  ELSE IF AcceptedO(O, t) THEN "impl" ELSE "error"
    IN  /\ classes_ok
        \* attribute entry: every helper attribute recognised for the derived set is removed from the re-emitted item
        /\ ("leftover" \in DOMAIN e => e.leftover = <<>>)

\* ---- run time: full result tables of the compiled impls ----
ExplainsRun(e) ==
    LET P  == e.P
        DS == DSet(e)
        O  == Outcomes(P, DS)
        n  == Len(e.vals)
        I  == 1..n
        val(i) == e.vals[i]
    IN  /\ ~e.rustc_failed                                    \* an accepted configuration must compile
        /\ Range(e.vals) = ValuesOf(P)                       \* the driver enumerated the whole product
        /\ n = Cardinality(ValuesOf(P))
        /\ \A t \in DS : AcceptedO(O, t)                      \* only accepted configurations are run
        /\ "PartialEq" \in DS =>
              \A i, j \in I : /\ e.eq[i][j] = B2I(EqO(O, e.mode, val(i), val(j)))
                              /\ e.ne[i][j] = 1 - e.eq[i][j]
        /\ "PartialOrd" \in DS =>
              \A i, j \in I :
                 LET r == CmpO(O, e.mode, "PartialOrd", val(i), val(j))
                 IN  /\ e.pcmp[i][j] = r
                     \* <, <=, >, >= packed as bits 1,2,4,8 must agree with partial_cmp
                     /\ e.ops[i][j] = B2I(r = -1) + 2 * B2I(r \in {-1, 0}) + 4 * B2I(r = 1) + 8 * B2I(r \in {0, 1})
        /\ "Ord" \in DS =>
              \A i, j \in I : e.cmp[i][j] = CmpO(O, e.mode, "Ord", val(i), val(j))
        /\ "Hash" \in DS =>
              \A i \in I : e.hash[i] = HashFeedO(O, e.mode, val(i))

\* ---- C02, model-free: the laws evaluated by the driver directly on the real impls ----
\* each entry is -1 (law holds on all pairs / triples), -2 (not applicable: a trait is missing)
\* or the index of the first witness of a failure
ExplainsLaws(e) ==
    LET DS == DSet(e)
        need(a, b) == a \in DS /\ b \in DS
    IN  /\ e.laws.eq_pord  = IF need("PartialEq", "PartialOrd") THEN -1 ELSE -2
        /\ e.laws.eq_ord   = IF need("PartialEq", "Ord") THEN -1 ELSE -2
        /\ e.laws.pord_ord = IF need("PartialOrd", "Ord") THEN -1 ELSE -2
        /\ e.laws.eq_hash  = IF need("PartialEq", "Hash") THEN -1 ELSE -2
        /\ e.laws.eq_equiv = IF "PartialEq" \in DS THEN -1 ELSE -2
        /\ e.laws.ord_total = IF "Ord" \in DS THEN -1 ELSE -2

\* ---- C17: does rustc accept derive_ex(Eq)? ----
ExplainsEqc(e) ==
    LET P == e.P
        ok == \A vi \in DOMAIN P.variants : \A j \in DOMAIN P.variants[vi].fields :
                 EqCompilesField(P.variants[vi].fields[j], DSet(e))
    IN  /\ e.rustc_ok = ok
        /\ ~ok => e.eq_bound_error          \* refused for the right reason: an unsatisfied `Eq` bound

Explains(e) ==
    CASE e.ev = "expand" -> ExplainsExpand(e)
      [] e.ev = "run"    -> ExplainsRun(e)
      [] e.ev = "keyform" -> e.feed_matches /\ e.eq_matches    \* the key expression as written decides feed and equality
      [] e.ev = "laws"   -> ExplainsLaws(e)
      [] e.ev = "eqc"    -> ExplainsEqc(e)
      [] OTHER           -> FALSE

TraceInit == l = 1 /\ bad = <<>>
Consume ==
    /\ l <= Len(Rec)
    /\ l' = l + 1
    /\ bad' = IF Explains(Rec[l]) THEN bad ELSE Append(bad, l)
TraceSpec == TraceInit /\ [][Consume]_tvars

Verdict ==
    l = Len(Rec) + 1 => PrintT(<<"JUDGE", ToJson([n |-> l - 1, bad |-> bad])>>)
=============================================================================
