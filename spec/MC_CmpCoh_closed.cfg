CONSTANT DSETS = "closed"
SPECIFICATION Spec
INVARIANTS TypeOK MechIsDoc CoherentInv EmitCfg
CHECK_DEADLOCK FALSE
