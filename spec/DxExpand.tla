------------------------------- MODULE DxExpand -------------------------------
(***************************************************************************)
(* The front of the expander: which inputs make the WHOLE derivation fail  *)
(* (one compile_error next to the re-emitted item, no impl at all) and     *)
(* which make a single ENTRY fail (that trait's place in the output is a   *)
(* compile_error, every other trait is generated).                         *)
(*                                                                         *)
(* Input descriptor P (abstract):                                          *)
(*   kind      "struct" | "enum" | "union" | "other" (fn, trait, mod, ..)  *)
(*   syntax_ok the argument lists parse                                    *)
(*   traits    Seq of requested trait names; "Foo" stands for an unknown   *)
(*   nfields   number of fields of the struct (Deref arity)                *)
(*   anomalies Seq([h, what, at]) malformed helper attributes:             *)
(*             h  : helper name or "derive_ex" (nested on a variant/field) *)
(*             what: "twice" | "name_value" | "bad_arg" | "unknown_trait"  *)
(*             at : "type" | "variant" | "field"                           *)
(*   ntransp   number of #[debug(transparent)] fields                      *)
(*   nmarked   number of #[default] variants, nvariants number of variants *)
(* doc: Attributes table (which trait where), "Derive Deref", "Derive      *)
(* Default", "#[debug(transparent)]".                                      *)
(***************************************************************************)
EXTENDS DxAttrs

Known(t) == t \in AllTraits
SupportedOn(kind, t) == IF kind = "enum" THEN t \in EnumTraits ELSE t \in StructTraits
DerivedOf(P) == {P.traits[i] : i \in DOMAIN P.traits}
ListsReadable(P) == P.syntax_ok /\ \A i \in DOMAIN P.traits : Known(P.traits[i])

\* a malformed attribute only matters if derive_ex parses it: its own nested attribute, or a helper
\* attribute of a trait that is being derived
Bites(P, a) ==
    IF a.h = "derive_ex" THEN TRUE
    ELSE Recognised(a.h, DerivedOf(P))

WholeError(P) ==
    \/ P.kind \notin {"struct", "enum"}
    \/ ~ListsReadable(P)
    \/ \E i \in DOMAIN P.traits : ~SupportedOn(P.kind, P.traits[i])
    \/ \E k \in DOMAIN P.anomalies : Bites(P, P.anomalies[k])

EntryError(P, t) ==
    \/ t \in {"Deref", "DerefMut"} /\ P.nfields # 1
    \/ t = "Debug" /\ P.ntransp > 1
    \/ t = "Default" /\ P.kind = "enum" /\ ~(P.nmarked = 1 \/ (P.nmarked = 0 /\ P.nvariants = 1))

(***************************************************************************)
(* impl items (doc "Derive Add from impl Add" / "AddAssign from impl Add" /*)
(* "Add from impl AddAssign").  Descriptor I:                              *)
(*   ikind   "inherent" | "negative" | "bin" | "assign" | "non_op"         *)
(*   args    Seq of "bin" | "assign" (the impl's own operator), "other_op" *)
(*           (another operator) or "unknown" (not an operator)             *)
(*   output  the impl has `type Output`                                    *)
(***************************************************************************)
ImplError(I) ==
    \/ I.ikind \in {"inherent", "negative", "non_op"}
    \/ ~I.syntax_ok
    \/ \E k \in DOMAIN I.args : I.args[k] \in {"other_op", "unknown"}
    \/ I.ikind = "assign" /\ \E k \in DOMAIN I.args : I.args[k] = "assign"     \* OpAssign can only come from impl Op
    \/ I.ikind = "bin" /\ ~I.output
\* number of impls generated next to the user's own
ImplCount(I) ==
    LET wb == \E k \in DOMAIN I.args : I.args[k] = "bin"
        wa == \E k \in DOMAIN I.args : I.args[k] = "assign"
    IN  IF I.ikind = "bin" THEN (IF wb THEN 3 ELSE 0) + (IF wa THEN (IF wb THEN 2 ELSE 1) ELSE 0)
        ELSE IF wb THEN 1 ELSE 0

\* the impl headers generated next to the user's own: <<"bin", l, r>> with l, r \in {"v", "r"} (by value / by reference)
\* and <<"assign", "m", r>>; I.bl / I.br are the forms of the user's own operands
ImplForms(I) ==
    LET wb == \E k \in DOMAIN I.args : I.args[k] = "bin"
        wa == \E k \in DOMAIN I.args : I.args[k] = "assign"
        all == {<<"bin", l, r>> : l \in {"v", "r"}, r \in {"v", "r"}}
    IN  IF I.ikind = "bin"
        THEN (IF wb THEN all \ {<<"bin", I.bl, I.br>>} ELSE {})
             \cup (IF wa THEN {<<"assign", "m", r>> : r \in (IF wb THEN {"v", "r"} ELSE {I.br})} ELSE {})
        ELSE IF wb THEN {<<"bin", "v", I.br>>} ELSE {}

\* classes of the output, in listing order; <<>> when the whole derivation fails
EntryClasses(P) == [i \in DOMAIN P.traits |-> IF EntryError(P, P.traits[i]) THEN "error" ELSE "impl"]

\* the same with `dump` (doc "Display generated code"): P.dump = "none" | "all" (the list carries `dump`)
\* | "first" (only the first entry carries `dump`).  A dumped entry that builds is shown as an error
\* carrying its code; a failing entry shows its own error whether dumped or not.
Dumped(P, i) == P.dump = "all" \/ (P.dump = "first" /\ i = 1)
EntryClassesD(P) ==
    [i \in DOMAIN P.traits |-> EntryClass(~EntryError(P, P.traits[i]), Dumped(P, i))]

\* what the attribute entry removes from the re-emitted item (names), cf. DxAttrs!Owned
RemovedNames(P) ==
    IF P.kind \notin {"struct", "enum"} THEN {}
    ELSE IF ~ListsReadable(P) THEN {"derive_ex"}
    ELSE {n \in OwnAttrs : Owned(n, DerivedOf(P))}
=============================================================================
