SPECIFICATION Spec
INVARIANTS FormIndependent ImplLaws EmitPlan
CHECK_DEADLOCK FALSE
