------------------------------- MODULE MC_Debug -------------------------------
(***************************************************************************)
(* C10 on the design.  Mechanism layer: the core::fmt builder protocol the *)
(* generated code drives - debug_struct/debug_tuple(name), one .field()    *)
(* call per shown field, .finish() - as a state machine that appends text  *)
(* step by step (`has_fields` flag as in core::fmt::builders).  Doc layer: *)
(* DxRun.RenderPlain / RenderAlt.  TLC checks that driving the builder     *)
(* with the non-ignored fields produces the rendering of the type with the *)
(* ignored fields deleted, for every field list up to three fields.        *)
(***************************************************************************)
EXTENDS DxRun

Leafs == {[leaf |-> "1", alt |-> <<"1">>], [leaf |-> "P { x: 2 }", alt |-> <<"P {", "    x: 2,", "}">>]}
Dbgs == {"none", "ignore"}
FieldRecs == {[name |-> n, leaf |-> l.leaf, alt |-> l.alt, dbg |-> d] : n \in {"a", "b"}, l \in Leafs, d \in Dbgs}
FieldLists == UNION {[1..m -> FieldRecs] : m \in 0..3}

VARIABLES named, fields, i, plain, alt, has, pc
vars == <<named, fields, i, plain, alt, has, pc>>

Init ==
    /\ named \in BOOLEAN /\ fields \in FieldLists
    /\ i = 1 /\ plain = "N" /\ alt = <<"N">> /\ has = FALSE /\ pc = "fields"

\* DebugStruct::field / DebugTuple::field
FieldCall ==
    /\ pc = "fields" /\ i <= Len(fields)
    /\ IF fields[i].dbg = "ignore"
       THEN UNCHANGED <<plain, alt, has>>            \* the generated code makes no call for an ignored field
       ELSE LET f == fields[i]
                pre == IF named THEN f.name \o ": " ELSE ""
            IN  /\ plain' = plain \o (IF has THEN ", " ELSE IF named THEN " { " ELSE "(") \o pre \o f.leaf
                /\ alt' = (IF has THEN alt ELSE <<alt[1] \o (IF named THEN " {" ELSE "(")>>)
                          \o Indent(WithLastSuffix(WithFirstPrefix(f.alt, pre), ","))
                /\ has' = TRUE
    /\ i' = i + 1 /\ UNCHANGED <<named, fields, pc>>
Finish ==
    /\ pc = "fields" /\ i > Len(fields)
    /\ plain' = IF has THEN plain \o (IF named THEN " }" ELSE ")") ELSE plain
    /\ alt' = IF has THEN alt \o <<IF named THEN "}" ELSE ")">> ELSE alt
    /\ pc' = "done" /\ UNCHANGED <<named, fields, i, has>>
Next == FieldCall \/ Finish
Spec == Init /\ [][Next]_vars

Deleted == SelectSeq(fields, LAMBDA f : f.dbg # "ignore")
BuilderIsRender ==
    pc = "done" => /\ plain = RenderPlain("N", named, Deleted)
                   /\ alt = RenderAlt("N", named, Deleted)
\* "minus ignored fields": same as the plan of the type with those fields deleted
MinusIgnored == pc = "done" => RenderPlain("N", named, DebugShown(fields)) = RenderPlain("N", named, Deleted)
=============================================================================
