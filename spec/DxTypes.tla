------------------------------- MODULE DxTypes -------------------------------
(***************************************************************************)
(* Field types as abstract type expressions over the generic parameters of *)
(* the item, and the documented notion "type of field containing generic   *)
(* parameters" (doc: Derive Copy / Clone / Debug / Default).               *)
(*                                                                         *)
(* A type expression is a record with a tag `k`:                           *)
(*   [k |-> "param", i]          the i-th generic parameter (type or const) *)
(*   [k |-> "conc",  n]          a concrete type (u8, String, ...)          *)
(*   [k |-> "app",   c, args]    c<args..>  (Option, Vec, Box, PhantomData) *)
(*   [k |-> "ref",   lt, of]     &'lt of   (lt = 0: no named lifetime)      *)
(*   [k |-> "tuple", args]       (a, b, ..)                                 *)
(*   [k |-> "array", of, len]    [of; len]; len = 0: literal, i: parameter  *)
(*   [k |-> "fn",    args, ret]  fn(args..) -> ret                          *)
(*   [k |-> "ptr",   of]         *const of                                  *)
(*   [k |-> "assoc", i, n]       P_i::Assoc                                 *)
(*   [k |-> "qassoc", of, n]     <of as Tr>::Assoc                          *)
(*   [k |-> "abs",   n]          ::absolute::path (never a parameter)       *)
(*   [k |-> "cgen",  len, braced] C<N> / C<{ N }>: a CONST parameter as a   *)
(*                               generic argument (bare: syn reads a type   *)
(*                               path; braced: an expression)               *)
(* params[i].k \in {"type","const","lifetime"}.                            *)
(***************************************************************************)
EXTENDS DxBase

RECURSIVE Mentions(_, _)
\* does the type mention a TYPE or CONST parameter?  Lifetimes never count.
Mentions(ty, params) ==
    CASE ty.k = "param"  -> params[ty.i].k \in {"type", "const"}
      [] ty.k = "conc"   -> FALSE
      [] ty.k = "abs"    -> FALSE
      [] ty.k = "app"    -> \E j \in DOMAIN ty.args : Mentions(ty.args[j], params)
      [] ty.k = "ref"    -> Mentions(ty.of, params)
      [] ty.k = "tuple"  -> \E j \in DOMAIN ty.args : Mentions(ty.args[j], params)
      [] ty.k = "array"  -> Mentions(ty.of, params) \/ (ty.len # 0 /\ params[ty.len].k = "const")
      [] ty.k = "fn"     -> Mentions(ty.ret, params) \/ \E j \in DOMAIN ty.args : Mentions(ty.args[j], params)
      [] ty.k = "ptr"    -> Mentions(ty.of, params)
      [] ty.k = "assoc"  -> params[ty.i].k = "type"
      [] ty.k = "qassoc" -> Mentions(ty.of, params)
      [] ty.k = "cgen"   -> params[ty.len].k = "const"
      [] OTHER           -> FALSE
=============================================================================
