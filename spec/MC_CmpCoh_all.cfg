CONSTANT DSETS = "all"
SPECIFICATION Spec
INVARIANTS TypeOK MechIsDoc CoherentInv EmitCfg
CHECK_DEADLOCK FALSE
