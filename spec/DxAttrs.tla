------------------------------- MODULE DxAttrs -------------------------------
(***************************************************************************)
(* What the expander does to the item itself and how the request is read:  *)
(*   - which attributes are derive_ex's own and are removed (C14)          *)
(*   - how the derive request is assembled from the macro arguments and    *)
(*     the #[derive_ex(..)] attributes, in listing order (C15)             *)
(*   - dump (C19)                                                          *)
(*   - the outcome classes of an expansion (C16)                           *)
(***************************************************************************)
EXTENDS DxCmp

(***************************************************************************)
(* Attribute ownership.  An attribute is [name |-> string]; names outside  *)
(* OwnAttrs are foreign (doc comments, repr, cfg_attr, allow, serde, ...). *)
(* doc: the helper attributes of the traits being derived belong to        *)
(* derive_ex; helper-named attributes of traits that are not derived and   *)
(* all foreign attributes are kept.                                        *)
(***************************************************************************)
Owned(name, D) ==
    \/ name = "derive_ex"
    \/ name \in HelperAttrs /\ Recognised(name, D)

\* indices (in order) of the attributes that survive
KeptIdx(names, D) == SelectSeq([i \in DOMAIN names |-> i], LAMBDA i : ~Owned(names[i], D))

IsForeign(name) == name \notin OwnAttrs
IsIncreasing(s) == \A i \in 1..(Len(s) - 1) : s[i] < s[i + 1]

\* When even the trait lists cannot be read the set D is unknown: the documentation only promises
\* that foreign content stays (in order) and that derive_ex's own attribute does not.
KeptOkUnknownD(names, kept) ==
    /\ IsIncreasing(kept)
    /\ \A i \in DOMAIN names : IsForeign(names[i]) => \E m \in DOMAIN kept : kept[m] = i
    /\ \A m \in DOMAIN kept : names[kept[m]] # "derive_ex"

\* Strip is idempotent and never removes a foreign attribute (checked by MC_Attrs)
StripNames(names, D) == [m \in DOMAIN KeptIdx(names, D) |-> names[KeptIdx(names, D)[m]]]

(***************************************************************************)
(* The derive request: a sequence of lists; list 1 is the macro argument   *)
(* list (attribute entry) or the first #[derive_ex] attribute (derive      *)
(* entry), further lists are further #[derive_ex(..)] attributes on the    *)
(* type.  Each list: [traits : Seq([t, dump]), dump : BOOLEAN].            *)
(* Entries are built in listing order.                                     *)
(***************************************************************************)
RECURSIVE FlattenFrom(_, _)
FlattenFrom(lists, i) ==
    IF i > Len(lists) THEN <<>>
    ELSE [m \in DOMAIN lists[i].traits |->
             [t |-> lists[i].traits[m].t, dump |-> lists[i].traits[m].dump \/ lists[i].dump]]
         \o FlattenFrom(lists, i + 1)
Entries(lists) == FlattenFrom(lists, 1)
DerivedSet(lists) == {Entries(lists)[i].t : i \in DOMAIN Entries(lists)}

\* dump: an entry whose build succeeded is replaced by an error carrying its code iff it is dumped;
\* a failing entry shows its own error; nothing else changes
EntryClass(built_ok, dumped) == IF ~built_ok THEN "error" ELSE IF dumped THEN "dump" ELSE "impl"

(***************************************************************************)
(* C15, co-derived independence: the impl of t may depend on the other     *)
(* derived traits only through helper attributes that do not belong to t.  *)
(***************************************************************************)
OnlyOwnHelpers(c, t) == \A a \in CmpAttrs : c[a] # NoOpt => Relevant(a, t)
CoDerivedStable(c, t, D1, D2) ==
    (t \in D1 /\ t \in D2 /\ OnlyOwnHelpers(c, t)) => FieldOutcome(c, t, D1) = FieldOutcome(c, t, D2)
=============================================================================
