------------------------------- MODULE Trace_Run -------------------------------
(***************************************************************************)
(* Trace specification for the run-time families (C07 C08 C09 C10 C11 C18).*)
(* Lines are observations of programs compiled with the genuine proc-macro *)
(* and executed.  The Clone family is validated WITH STATE: the model's    *)
(* pool of program variables evolves with the trace (reset / clone /       *)
(* clone_from events); after an unexplained line the model re-synchronises *)
(* from the logged post-state so the rest of the trace is still checked.   *)
(***************************************************************************)
EXTENDS DxRun, Json, IOUtils

Rec == ndJsonDeserialize(IOEnv.TRACE)

VARIABLES l, bad, pool
tvars == <<l, bad, pool>>

NoPool == [a |-> [v |-> 0, f |-> <<>>], b |-> [v |-> 0, f |-> <<>>]]

(***************************************************************************)
(* C07 with state                                                          *)
(***************************************************************************)
ExplainsClone(e) ==
    /\ e.log = CloneLog(pool[e.s])                 \* one Clone::clone per field of the source, in order
    /\ e.post[e.d] = pool[e.s]                     \* the result is the source, field for field (tags included)
    /\ e.post[e.s] = pool[e.s]                     \* the source is untouched
ExplainsCloneFrom(e) ==
    /\ e.log = CloneFromLog(pool[e.d], pool[e.s])
    /\ e.post[e.d] = pool[e.s]
    /\ e.post[e.s] = pool[e.s]

(***************************************************************************)
(* C08                                                                     *)
(***************************************************************************)
ExplainsBin(e) ==
    /\ e.result = BinResult(e.op, e.n)
    /\ e.log = BinLog(e.op, e.n, e.lref, e.rref)
    /\ (e.lref => e.a_after = Leaves("a", e.n))    \* borrowed operands are left unchanged
    /\ (e.rref => e.b_after = Leaves("b", e.n))
ExplainsAssign(e) ==
    /\ e.a_after = AssignPost(e.op, e.n)
    /\ e.log = AssignLog(e.op, e.n, e.rref)
    /\ (e.rref => e.b_after = Leaves("b", e.n))
ExplainsUn(e) ==
    /\ e.result = UnResult(e.op, e.n)
    /\ e.log = UnLog(e.op, e.n, e.lref)
    /\ (e.lref => e.a_after = Leaves("a", e.n))

(***************************************************************************)
(* C09                                                                     *)
(***************************************************************************)
ExplainsImplForms(e) ==
    \* which (l, r) forms exist after derivation = the user's own plus the generated ones, each exactly once
    LET bl == e.base.l br == e.base.r
    IN  /\ Range(e.bin_forms) = (IF e.want_bin THEN {<<"v", "v">>, <<"v", "r">>, <<"r", "v">>, <<"r", "r">>} ELSE {<<bl, br>>})
        /\ Len(e.bin_forms) = Cardinality(Range(e.bin_forms))          \* no form is implemented twice
        /\ Range(e.assign_forms) = (IF e.want_assign THEN AssignRhsForms(bl, br, e.want_bin) ELSE {})
        /\ Len(e.assign_forms) = Cardinality(Range(e.assign_forms))
ExplainsImplBin(e) ==
    LET p == BinFromBin(e.base.l, e.base.r, e.form.l, e.form.r)
    IN  /\ e.calls = p.calls /\ e.lclones = p.lclones /\ e.rclones = p.rclones
        /\ e.result = p.result
        /\ e.operands_unchanged
ExplainsImplAssign(e) ==
    LET p == AssignFromBin(e.base.l, e.base.r, e.form.r)
    IN  /\ e.calls = p.calls /\ e.lclones = p.lclones /\ e.rclones = p.rclones
        /\ e.post = p.post
        /\ e.operands_unchanged
ExplainsImplBinFromAssign(e) ==
    /\ e.calls = 1 /\ e.lclones = 0 /\ e.rclones = 0 /\ e.result = "assigned(L,R)"
    /\ e.operands_unchanged                   \* a right operand received by reference is left as it was

(***************************************************************************)
(* C10                                                                     *)
(***************************************************************************)
ExplainsDebug(e) ==
    IF DebugRejected(e.fields) THEN e.rejected
    ELSE /\ ~e.rejected
         /\ IF Len(DebugTransparent(e.fields)) = 1
            THEN LET f == DebugTransparent(e.fields)[1]
                 IN  e.plain = f.leaf /\ e.alt = f.alt       \* identical to formatting that field alone
            ELSE e.check_render =>         \* (names are abstract in renamed programs: there only the twin oracle applies)
                 /\ e.plain = RenderPlain(e.name, e.named, DebugShown(e.fields))
                 /\ e.alt = RenderAlt(e.name, e.named, DebugShown(e.fields))
         /\ e.twin_equal           \* every formatter flag combination equals the std-derived twin (ignored fields deleted)

(***************************************************************************)
(* C11                                                                     *)
(***************************************************************************)
ExplainsDefault(e) ==
    IF DefaultRejected(e.P) THEN e.rejected
    ELSE /\ ~e.rejected
         /\ IF e.P.tv # "none"
            THEN \* the type-level value wins over everything else (the driver's value: variant 1, every field marked)
                 /\ e.variant = 1
                 /\ Len(e.prov) = Len(e.P.variants[1].fields)
                 /\ \A j \in DOMAIN e.prov : e.prov[j] = "type_level"
            ELSE LET vi == DefaultVariant(e.P)
                 IN  /\ e.variant = vi
                     /\ e.prov = [j \in DOMAIN e.P.variants[vi].fields |-> FieldDefault(e.P.variants[vi].fields[j])]

(***************************************************************************)
(* C18                                                                     *)
(***************************************************************************)
ExplainsDeref(e) ==
    IF DerefAccepted(e.nfields)
    THEN /\ ~e.rejected
         /\ e.same_address /\ e.target_is_field_type /\ e.write_lands /\ e.mut_same_address
    ELSE e.rejected

(***************************************************************************)
(* C12: attribute-free items.  The specification's statement is simply     *)
(* that derive_ex accepts every shape the standard derive accepts and that *)
(* every observable of the derive_ex type coincides with the std-derived   *)
(* twin (the decisive oracles are rustc and std); e.checks lists the       *)
(* observables that were compared for the traits derived.                  *)
(***************************************************************************)
TwinObservables(traits) ==
    (IF "Debug" \in traits THEN {"debug_equal"} ELSE {}) \cup
    (IF "PartialEq" \in traits THEN {"eq_equal"} ELSE {}) \cup
    (IF "PartialOrd" \in traits THEN {"pcmp_equal"} ELSE {}) \cup
    (IF "Ord" \in traits THEN {"cmp_equal"} ELSE {})
ExplainsTwin(e) ==
    /\ e.rustc_ok                                    \* drop-in: the program compiles
    /\ e.std_ok                                      \* (the twin alone compiles: the shape is one std accepts)
    /\ \A i \in DOMAIN e.results : e.results[i].ok   \* every compared observable agrees
    /\ (e.nvals > 0 => TwinObservables(Range(e.traits)) \subseteq {e.results[i].name : i \in DOMAIN e.results})

Explains(e) ==
    CASE e.ev = "reset"       -> TRUE
      [] e.ev = "twin"        -> ExplainsTwin(e)
      [] e.ev = "clone"       -> ExplainsClone(e)
      [] e.ev = "clone_from"  -> ExplainsCloneFrom(e)
      [] e.ev = "binop"       -> ExplainsBin(e)
      [] e.ev = "assignop"    -> ExplainsAssign(e)
      [] e.ev = "unop"        -> ExplainsUn(e)
      [] e.ev = "implforms"   -> ExplainsImplForms(e)
      [] e.ev = "implbin"     -> ExplainsImplBin(e)
      [] e.ev = "implassign"  -> ExplainsImplAssign(e)
      [] e.ev = "implbin_from_assign" -> ExplainsImplBinFromAssign(e)
      [] e.ev = "debug"       -> ExplainsDebug(e)
      [] e.ev = "default"     -> ExplainsDefault(e)
      \* fields of any TYPE: the derived impl is one call of the field type's own clone / clone_from per field, in order
      [] e.ev = "clone_fieldwise" -> e.from_log_equal /\ e.from_state_equal /\ e.clone_log_equal /\ e.clone_state_equal
      \* macro_rules-generated items: the derived impls behave like the std-derived twin / the field-wise computation
      [] e.ev = "same_as_twin" -> e.equal
      [] e.ev = "deref"       -> ExplainsDeref(e)
      [] e.ev = "impl_compiles" -> e.rustc_ok      \* operators derived from an unusual but legal user impl compile and are usable
      [] e.ev = "deref_compiles" -> e.rustc_ok     \* a single field of any type is a legitimate target
      [] e.ev = "deref_pinned" -> ~e.rustc_ok     \* DerefMut names the field type: next to a hand-written Deref with another Target rustc must refuse it
      [] OTHER                -> FALSE

TraceInit == l = 1 /\ bad = <<>> /\ pool = NoPool
Consume ==
    /\ l <= Len(Rec)
    /\ l' = l + 1
    /\ bad' = IF Explains(Rec[l]) THEN bad ELSE Append(bad, l)
    /\ pool' = IF Rec[l].ev = "reset" THEN Rec[l].pool
               ELSE IF Rec[l].ev \in {"clone", "clone_from"} THEN Rec[l].post   \* logged post-state (re-sync)
               ELSE pool
TraceSpec == TraceInit /\ [][Consume]_tvars

Verdict ==
    l = Len(Rec) + 1 => PrintT(<<"JUDGE", ToJson([n |-> l - 1, bad |-> bad])>>)
=============================================================================
