CONSTANT DSETS = "all"
SPECIFICATION Spec
INVARIANTS TypeOK Progress MechIsDoc Isolation DocErrorCases EmitCfg
CHECK_DEADLOCK FALSE
