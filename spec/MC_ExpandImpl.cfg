SPECIFICATION Spec
INVARIANT TypeOK
INVARIANT Deterministic
INVARIANT MechIsDoc
INVARIANT NoConflict
INVARIANT FormsAreC09
INVARIANT Emitted
PROPERTY Terminates
PROPERTY ErrIsFinal
CHECK_DEADLOCK TRUE
