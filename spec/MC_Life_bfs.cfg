CONSTANTS
    VARS = {"a", "b"}
    SETVALS = {0, 3}
    MAXV = 2
    MAXF = 1
    HLEN = 0
    FOCUS = "any"
    PALETTE = "small"
SPECIFICATION Spec
INVARIANTS TypeOK ItemOK Laws CoherentNow
PROPERTY ObserversPure
VIEW VIEW_NoHist
CHECK_DEADLOCK FALSE
