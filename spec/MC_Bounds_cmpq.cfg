CONSTANT FAMILY = "cmpq"
SPECIFICATION Spec
INVARIANTS Progress MechIsDoc DeclRetained DefaultIsUsedFields ScopeIsolation
PROPERTIES GrowOnly FlagNeverReturns
CHECK_DEADLOCK FALSE
