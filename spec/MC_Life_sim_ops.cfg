CONSTANTS
    VARS = {"a", "b", "c"}
    SETVALS = {0, 1, 2, 3, 4, 5}
    MAXV = 3
    MAXF = 3
    HLEN = 24
    FOCUS = "ops"
    PALETTE = "full"
SPECIFICATION Spec
INVARIANTS TypeOK
CHECK_DEADLOCK FALSE
