-------------------------------- MODULE DxCmp --------------------------------
(***************************************************************************)
(* The comparison family: Ord, PartialOrd, Eq, PartialEq, Hash derived     *)
(* with the helper attributes #[ord] #[partial_ord] #[eq] #[partial_eq]    *)
(* #[hash] carrying ignore / reverse / key = .. / by = ..                  *)
(*                                                                         *)
(* Two layers (DESIGN.md 1.3):                                             *)
(*   Doc*   declarative transcription of doc/derive_ex.md                  *)
(*   Mech*  shaped like compare_op.rs (chains walked front to back, early  *)
(*          return, bad_attr fallback)                                     *)
(* MC_Cmp checks Mech* = Doc* on the whole 3136 x trait-set matrix; the    *)
(* trace specification judges the real code against the Doc* layer.        *)
(***************************************************************************)
EXTENDS DxBase

(***************************************************************************)
(* Per-attribute option and per-field configuration                        *)
(***************************************************************************)
Opt(i, r, s) == [ign |-> i, rev |-> r, sel |-> s]
NoOpt == Opt(FALSE, FALSE, "none")

\* the 7 options of the property's matrix for ord / partial_ord
OrdLikeOpts == {NoOpt, Opt(TRUE, FALSE, "none"), Opt(FALSE, TRUE, "none"),
                Opt(FALSE, FALSE, "key"), Opt(FALSE, FALSE, "by"),
                Opt(FALSE, TRUE, "key"), Opt(FALSE, TRUE, "by")}
\* the 4 options for eq / partial_eq / hash
EqLikeOpts  == {NoOpt, Opt(TRUE, FALSE, "none"), Opt(FALSE, FALSE, "key"), Opt(FALSE, FALSE, "by")}

FieldCfgs == [ord : OrdLikeOpts, partial_ord : OrdLikeOpts,
              eq : EqLikeOpts, partial_eq : EqLikeOpts, hash : EqLikeOpts]      \* 7*7*4*4*4 = 3136
PlainCfg == [a \in CmpAttrs |-> NoOpt]

\* Attributes that are not recognised for the derived set are not derive_ex's: no effect.
Eff(c, D) == [a \in CmpAttrs |-> IF Recognised(a, D) THEN c[a] ELSE NoOpt]

(***************************************************************************)
(* ignore                                                                  *)
(* doc: "Specifying ignore for a field excludes that field from comparison *)
(* and hash calculation.  You cannot change whether ignore is applied by   *)
(* the trait.  A compile error occurs when trying to apply ignore to only  *)
(* some of the traits."  Hash may ignore more than ==, never less.         *)
(***************************************************************************)
DocIgnore(c, t) ==
    IF \E a \in CmpAttrs : Applies(a, t) /\ c[a].ign THEN "yes"
    ELSE IF \E a \in CmpAttrs \ {"hash"} : c[a].ign THEN "err"    \* == would skip the field, t would not
    ELSE "no"

\* compare_op.rs is_ignore, branch by branch
MechIgnore(c, t) ==
    CASE t = "Ord" ->
            IF c.ord.ign THEN "yes"
            ELSE IF c.partial_ord.ign \/ c.partial_eq.ign \/ c.eq.ign THEN "err" ELSE "no"
      [] t = "PartialOrd" ->
            IF c.partial_ord.ign \/ c.ord.ign THEN "yes"
            ELSE IF c.partial_eq.ign \/ c.eq.ign THEN "err" ELSE "no"
      [] t = "Eq" ->
            IF c.eq.ign \/ c.ord.ign THEN "yes"
            ELSE IF c.partial_eq.ign \/ c.partial_ord.ign THEN "err" ELSE "no"
      [] t = "PartialEq" ->
            IF c.partial_eq.ign \/ c.eq.ign \/ c.partial_ord.ign \/ c.ord.ign THEN "yes" ELSE "no"
      [] t = "Hash" ->
            IF c.hash.ign \/ c.eq.ign \/ c.ord.ign THEN "yes"
            ELSE IF c.partial_eq.ign \/ c.partial_ord.ign THEN "err" ELSE "no"

(***************************************************************************)
(* comparator selection                                                    *)
(* doc: most specific applicable attribute with key/by wins; "#[hash(by)]  *)
(* only changes the behavior of Hash, other attributes' by act on traits   *)
(* other than Hash"; "trying to mix modified behavior with default         *)
(* behavior will result in a compilation error".                           *)
(***************************************************************************)
SelRec(k, a) == [k |-> k, a |-> a]
SelDefault == SelRec("default", "-")
SelErr     == SelRec("err", "-")

AnyCustom(c) == \E a \in CmpAttrs : c[a].sel # "none"
Usable(a, t, s) == s # "none" /\ ~(t = "Hash" /\ s = "by" /\ a # "hash")

DocSel(c, t) ==
    LET ch    == DocChain(t)
        cands == {i \in DOMAIN ch : Usable(ch[i], t, c[ch[i]].sel)}
    IN  IF cands # {}
        THEN LET i == CHOOSE m \in cands : \A n \in cands : m <= n
             IN  SelRec(c[ch[i]].sel, ch[i])
        ELSE IF AnyCustom(c) THEN SelErr ELSE SelDefault

\* One step of the front-to-back walk in build_*_expr: returns the selection made at chain
\* position i, or "next".
WalkAt(c, t, i) ==
    LET a == Chain(t)[i]
    IN  IF c[a].sel = "by" /\ ~(t = "Hash" /\ a # "hash") THEN SelRec("by", a)
        ELSE IF c[a].sel \in {"key", "idkey"} THEN SelRec(c[a].sel, a)
        ELSE SelRec("next", "-")

\* the bad_attr fallback once the chain is exhausted
WalkEnd(c) == IF AnyCustom(c) THEN SelErr ELSE SelDefault

RECURSIVE MechSelFrom(_, _, _)
MechSelFrom(c, t, i) ==
    IF i > Len(Chain(t)) THEN WalkEnd(c)
    ELSE LET w == WalkAt(c, t, i) IN IF w.k = "next" THEN MechSelFrom(c, t, i + 1) ELSE w
MechSel(c, t) == MechSelFrom(c, t, 1)

(***************************************************************************)
(* reverse (Ord / PartialOrd only)                                         *)
(***************************************************************************)
DocReverse(c, t) ==
    IF t = "Ord" /\ c.partial_ord.rev THEN "err"           \* partial_ord(reverse) when Ord is derived
    ELSE IF \E a \in CmpAttrs : Applies(a, t) /\ c[a].rev THEN "yes" ELSE "no"

MechReverse(c, t) ==
    CASE t = "Ord"        -> IF c.partial_ord.rev THEN "err" ELSE IF c.ord.rev THEN "yes" ELSE "no"
      [] t = "PartialOrd" -> IF c.partial_ord.rev \/ c.ord.rev THEN "yes" ELSE "no"
      [] OTHER            -> "no"

(***************************************************************************)
(* Outcome for one field and one trait: error, skip, or use(selection,rev) *)
(***************************************************************************)
Out(o, k, a, r) == [o |-> o, k |-> k, a |-> a, rev |-> r]
OutErr  == Out("err", "-", "-", FALSE)
OutSkip == Out("skip", "-", "-", FALSE)

Combine(ig, s, rv) ==
    IF ig = "err" THEN OutErr
    ELSE IF ig = "yes" THEN OutSkip
    ELSE IF s.k = "err" THEN OutErr
    ELSE IF rv = "err" THEN OutErr
    ELSE Out("use", s.k, s.a, rv = "yes")

Ordered(t) == t \in {"Ord", "PartialOrd"}
DocOutcome(c, t)  == Combine(DocIgnore(c, t),  DocSel(c, t),  IF Ordered(t) THEN DocReverse(c, t)  ELSE "no")
MechOutcome(c, t) == Combine(MechIgnore(c, t), MechSel(c, t), IF Ordered(t) THEN MechReverse(c, t) ELSE "no")

\* what the specification prescribes for field configuration c when the set D is derived
FieldOutcome(c, t, D) == DocOutcome(Eff(c, D), t)
FieldAccepted(c, t, D) == FieldOutcome(c, t, D).o # "err"

(***************************************************************************)
(* Values and user-supplied functions.                                     *)
(* The harness attaches to each attribute a *different* key function and a *)
(* different `by` function ("distinct" mode, so precedence is observable)  *)
(* or one and the same key everywhere ("coherent" mode, the premise of the *)
(* coherence property).  These are the USER's functions; the spec needs    *)
(* them only to say what the derived impls must return.                    *)
(***************************************************************************)
Val == 0..5

KeyFn(mode, a, v) ==
    IF mode = "coherent" THEN v \div 2
    ELSE CASE a = "ord"         -> v \div 2
           [] a = "partial_ord" -> v % 3
           [] a = "eq"          -> v \div 3
           [] a = "partial_eq"  -> v % 2
           [] a = "hash"        -> (v + 1) \div 2
ByFn(mode, a, v) ==
    IF mode = "coherent" THEN v \div 2
    ELSE CASE a = "ord"         -> (9 - v) \div 2
           [] a = "partial_ord" -> (v + 1) % 3
           [] a = "eq"          -> (9 - v) \div 3
           [] a = "partial_eq"  -> (v + 1) % 2
           [] a = "hash"        -> (10 - v) \div 2

\* the value a field is compared / hashed through under outcome o
Proj(o, mode, v) ==
    IF o.k \in {"default", "idkey"} THEN v          \* "idkey": `key = $`, the field itself chosen EXPLICITLY (it still takes precedence
                                                   \* over the keys of less specific attributes, like any other key)
    ELSE IF o.k = "key" THEN KeyFn(mode, o.a, v) ELSE ByFn(mode, o.a, v)

Cmp3(x, y) == IF x < y THEN -1 ELSE IF x > y THEN 1 ELSE 0
None == 2                                   \* encoding of partial_cmp = None
Flip(r) == IF r = None THEN None ELSE 0 - r

FieldCmp(o, mode, x, y) ==
    LET r == Cmp3(Proj(o, mode, x), Proj(o, mode, y)) IN IF o.rev THEN Flip(r) ELSE r

\* Partially ordered field type (float-like): the value NaN is unequal to and incomparable with
\* everything, itself included.  Only the field's OWN comparison is partial; keys are totally ordered.
NaN == 7
Partial(o, x, y) == o.pv /\ o.k \in {"default", "idkey"} /\ (x = NaN \/ y = NaN)
FieldEqP(o, mode, x, y) == ~Partial(o, x, y) /\ Proj(o, mode, x) = Proj(o, mode, y)
FieldCmpP(o, mode, x, y) == IF Partial(o, x, y) THEN None ELSE FieldCmp(o, mode, x, y)

(***************************************************************************)
(* Items.  P = [kind, variants : Seq([shape, fields : Seq([cmp : Cfg])])] *)
(* A value is [v |-> variant index, f |-> sequence of field values].       *)
(***************************************************************************)
FieldsOf(P, vi) == P.variants[vi].fields
NF(P, vi) == Len(FieldsOf(P, vi))

\* Outcome table of an item: O[t][vi][j].  Computed once per item and handed to the
\* semantic operators below (TLC caches a LET-bound constant, so this is evaluated once).
Outcomes(P, D) ==
    [t \in CmpTraits |->
        [vi \in DOMAIN P.variants |->
            [j \in DOMAIN FieldsOf(P, vi) |->
                FieldOutcome(FieldsOf(P, vi)[j].cmp, t, D) @@ [pv |-> FieldsOf(P, vi)[j].ty = "pv"]]]]

AcceptedO(O, t) == \A vi \in DOMAIN O[t] : \A j \in DOMAIN O[t][vi] : O[t][vi][j].o # "err"
ItemAccepted(P, t, D) == AcceptedO(Outcomes(P, D), t)

EqO(O, mode, x, y) ==
    /\ x.v = y.v
    /\ \A j \in DOMAIN O["PartialEq"][x.v] :
          LET o == O["PartialEq"][x.v][j]
          IN  o.o = "skip" \/ FieldEqP(o, mode, x.f[j], y.f[j])

RECURSIVE LexFrom(_, _, _, _, _)
LexFrom(os, mode, xf, yf, j) ==
    IF j > Len(os) THEN 0
    ELSE IF os[j].o = "skip" THEN LexFrom(os, mode, xf, yf, j + 1)
    ELSE LET r == FieldCmpP(os[j], mode, xf[j], yf[j])          \* first non-equal result decides, None included
         IN  IF r = 0 THEN LexFrom(os, mode, xf, yf, j + 1) ELSE r

\* t = "PartialOrd" gives partial_cmp (None never arises over the totally ordered Val),
\* t = "Ord" gives cmp
CmpO(O, mode, t, x, y) ==
    IF x.v # y.v THEN Cmp3(x.v, y.v) ELSE LexFrom(O[t][x.v], mode, x.f, y.f, 1)

\* Hash feed: what the instrumented field / key / by types write, in order.
\* field itself: <<100, v>>; key of attribute a: <<110 + rank(a), k>>; hash(by): <<120, k>>
FieldFeed(o, mode, v) ==
    IF o.o = "skip" THEN <<>>
    ELSE IF o.k \in {"default", "idkey"} THEN <<100, v>>
    ELSE IF o.k = "key" THEN <<110 + AttrRank(o.a), KeyFn(mode, o.a, v)>>
    ELSE <<120, ByFn(mode, o.a, v)>>

RECURSIVE FeedFrom(_, _, _, _)
FeedFrom(os, mode, xf, j) ==
    IF j > Len(os) THEN <<>>
    ELSE FieldFeed(os[j], mode, xf[j]) \o FeedFrom(os, mode, xf, j + 1)
HashFeedO(O, mode, x) == FeedFrom(O["Hash"][x.v], mode, x.f, 1)

ItemEq(P, D, mode, x, y)      == EqO(Outcomes(P, D), mode, x, y)
ItemCmp(P, D, mode, t, x, y)  == CmpO(Outcomes(P, D), mode, t, x, y)
ItemHashFeed(P, D, mode, x)   == HashFeedO(Outcomes(P, D), mode, x)

\* all values of an item
RECURSIVE TuplesOver(_)
TuplesOver(n) == IF n = 0 THEN {<<>>} ELSE {Append(s, v) : s \in TuplesOver(n - 1), v \in Val}
AllValues(P) == UNION {{[v |-> vi, f |-> s] : s \in TuplesOver(NF(P, vi))} : vi \in DOMAIN P.variants}

(***************************************************************************)
(* Coherence laws (property C02), evaluated on the MODEL over a value set  *)
(***************************************************************************)
Coherent(P, D, mode, VS, VT) ==
    LET O == Outcomes(P, D)
        eq(x, y)  == EqO(O, mode, x, y)
        pc(x, y)  == CmpO(O, mode, "PartialOrd", x, y)
        oc(x, y)  == CmpO(O, mode, "Ord", x, y)
        hf(x)     == HashFeedO(O, mode, x)
        has(t)    == t \in D /\ AcceptedO(O, t)
    IN  /\ (has("PartialEq") /\ has("PartialOrd")) => \A x, y \in VS : eq(x, y) <=> (pc(x, y) = 0)
        /\ (has("PartialEq") /\ has("Ord"))        => \A x, y \in VS : eq(x, y) <=> (oc(x, y) = 0)
        /\ (has("PartialOrd") /\ has("Ord"))       => \A x, y \in VS : pc(x, y) = oc(x, y)
        /\ (has("PartialEq") /\ has("Hash"))       => \A x, y \in VS : eq(x, y) => hf(x) = hf(y)
        /\ has("PartialEq") => /\ \A x \in VS : eq(x, x)
                               /\ \A x, y \in VS : eq(x, y) => eq(y, x)
                               /\ \A x, y, z \in VT : (eq(x, y) /\ eq(y, z)) => eq(x, z)
        /\ has("Ord") => /\ \A x, y \in VS : oc(x, y) = 0 - oc(y, x)
                         /\ \A x, y, z \in VT : (oc(x, y) <= 0 /\ oc(y, z) <= 0) => oc(x, z) <= 0

(***************************************************************************)
(* Misplaced arguments (doc: ignore / reverse / by / key are field-only).  *)
(* P.tcmp is the configuration written on the type, variants[i].vcmp the   *)
(* one written on a variant.  Any of the four arguments there, on an       *)
(* attribute that belongs to derive_ex for this derived set, refuses the   *)
(* whole derivation.                                                       *)
(***************************************************************************)
HasFieldOnlyArg(o) == o.ign \/ o.rev \/ o.sel # "none"
Misplaced(P, D) ==
    \/ \E a \in CmpAttrs : Recognised(a, D) /\ HasFieldOnlyArg(P.tcmp[a])
    \/ \E vi \in DOMAIN P.variants : \E a \in CmpAttrs :
          Recognised(a, D) /\ HasFieldOnlyArg(P.variants[vi].vcmp[a])

(***************************************************************************)
(* C17: when does `Eq` type-check?  ty / kty say whether the field type /  *)
(* the key expression's type implements Eq.                                *)
(***************************************************************************)
EqCompilesField(fld, D) ==
    LET o == FieldOutcome(fld.cmp, "Eq", D)
    IN  \/ o.o = "skip"
        \/ o.o = "use" /\ o.k = "by"
        \/ o.o = "use" /\ o.k = "key" /\ fld.kty = "eq"
        \/ o.o = "use" /\ o.k = "idkey" /\ fld.ty = "eq"
        \/ o.o = "use" /\ o.k = "default" /\ fld.ty = "eq"
=============================================================================
