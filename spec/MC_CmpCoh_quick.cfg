CONSTANT DSETS = "quick"
SPECIFICATION Spec
INVARIANTS TypeOK MechIsDoc CoherentInv EmitCfg
CHECK_DEADLOCK FALSE
