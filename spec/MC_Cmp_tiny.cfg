CONSTANT DSETS = "tiny"
SPECIFICATION Spec
INVARIANTS TypeOK Progress MechIsDoc Isolation DocErrorCases EmitCfg
CHECK_DEADLOCK FALSE
