------------------------------- MODULE Trace_Exp -------------------------------
(***************************************************************************)
(* Trace specification for properties that are about the expansion itself  *)
(* (tokens in, tokens out): C14 re-emission, C15 entry-point / split /     *)
(* co-derived equivalence and ordering, C16 totality and determinism,      *)
(* C19 dump.  Every line is one observation of the real expander made      *)
(* in-process; token equalities are computed by the observer (they are     *)
(* relations between two real expansions, no expected content).            *)
(***************************************************************************)
EXTENDS DxExpand, Json, IOUtils

Rec == ndJsonDeserialize(IOEnv.TRACE)

VARIABLES l, bad
tvars == <<l, bad>>

(***************************************************************************)
(* C14.  e.pos: sequence over the positions of the item (type, variants,   *)
(* fields) of [names, kept]; e.D derived traits; e.lists_ok: the trait     *)
(* lists could be read (so D is known).                                    *)
(***************************************************************************)
ExplainsStrip(e) ==
    /\ e.item_present                       \* the item is re-emitted, also next to an error
    /\ e.skeleton_equal                     \* everything that is not an attribute is token-identical
    /\ \A p \in DOMAIN e.pos :
          IF e.lists_ok
          THEN e.pos[p].kept = KeptIdx(e.pos[p].names, Range(e.D))
          ELSE KeptOkUnknownD(e.pos[p].names, e.pos[p].kept)
    /\ ("generated" \in DOMAIN e /\ e.lists_ok => Range(e.generated) \subseteq Range(e.D))   \* nothing is generated that the lists do not name

\* impl items re-emitted unchanged
ExplainsImplItem(e) == e.item_present /\ e.item_equal

(***************************************************************************)
(* C15.  rel = "entry": attribute macro vs #[derive(Ex)]; "split": one     *)
(* list vs the same traits split over several attributes; "coderived":     *)
(* impl of trait t under D1 vs under D2.                                   *)
(***************************************************************************)
ExplainsEquiv(e) ==
    CASE e.rel = "entry" -> e.equal
      [] e.rel = "split" -> e.equal
      [] e.rel = "coderived" ->
            \* equality is demanded exactly where the precondition of the property holds
            (\A vi \in DOMAIN e.P.variants : \A j \in DOMAIN e.P.variants[vi].fields :
                 OnlyOwnHelpers(e.P.variants[vi].fields[j].cmp, e.t)) => e.equal
      [] e.rel = "order" -> e.observed = e.listed      \* impls appear in listing order
      [] OTHER -> FALSE

(***************************************************************************)
(* C16                                                                     *)
(***************************************************************************)
ExplainsTotal(e) ==
    /\ e.class \in {"items", "compile_error"}      \* never a panic, never unparsable output
    /\ e.det                                       \* second expansion token-identical
    /\ (e.class = "compile_error" => e.has_message)

(***************************************************************************)
(* C19.  e.lists as in DxAttrs; e.built[i]: entry i built without error in *)
(* the dump-free expansion; e.classes[i] observed class with dump;         *)
(* e.payload_ok[i]: the text after "dump:\n" re-lexes to exactly the       *)
(* tokens of entry i in the dump-free expansion; e.same[i]: a non-dumped   *)
(* entry is token-identical in both expansions.                            *)
(***************************************************************************)
ExplainsDump(e) ==
    LET es == Entries(e.lists)
    IN  IF e.whole_fail
        THEN e.item_equal /\ e.same_whole     \* nothing was generated, so there is nothing to dump: same error, same item
        ELSE
        /\ Len(e.classes) = Len(es)
        /\ e.item_equal
        /\ \A i \in DOMAIN es :
              /\ e.classes[i] = EntryClass(e.built[i], es[i].dump)
              /\ (e.classes[i] = "dump" => e.payload_ok[i])
              /\ (e.classes[i] # "dump" => e.same[i])

ExplainsImplDump(e) == e.is_error /\ e.payload_ok /\ e.item_equal

(***************************************************************************)
(* Own errors (DxExpand): whole-derivation failure vs per-entry failure.   *)
(* e.nimpl / e.nerr: impl groups and compile_error items of the expansion; *)
(* e.classes: per listed trait "impl" | "error" (only when not whole).     *)
(***************************************************************************)
ExplainsOwn(e) ==
    IF WholeError(e.P)
    THEN /\ e.nimpl = 0 /\ e.nerr >= 1                     \* refused as a whole, with a message
         /\ (e.entry = "attr" /\ e.P.kind \in {"struct", "enum", "union", "other"} => e.item_present)
    ELSE /\ e.classes = (IF "dump" \in DOMAIN e.P THEN EntryClassesD(e.P) ELSE EntryClasses(e.P))
         /\ (e.entry = "attr" => e.item_present)

ExplainsOwnImpl(e) ==
    /\ e.item_present /\ e.item_equal                        \* the user's impl is always re-emitted unchanged
    /\ IF ImplError(e.I) THEN e.nimpl = 0 /\ e.nerr = 1
       ELSE /\ e.nerr = 0 /\ e.nimpl = ImplCount(e.I)
            /\ ("bl" \in DOMAIN e.I => {e.forms[j] : j \in DOMAIN e.forms} = ImplForms(e.I) /\ Len(e.forms) = ImplCount(e.I))

Explains(e) ==
    CASE e.ev = "strip"    -> ExplainsStrip(e)
      [] e.ev = "own"      -> ExplainsOwn(e)
      [] e.ev = "ownimpl"  -> ExplainsOwnImpl(e)
      [] e.ev = "implitem" -> ExplainsImplItem(e)
      [] e.ev = "equiv"    -> ExplainsEquiv(e)
      [] e.ev = "total"    -> ExplainsTotal(e)
      [] e.ev = "dump"     -> ExplainsDump(e)
      [] e.ev = "impldump" -> ExplainsImplDump(e)
      [] OTHER             -> FALSE

TraceInit == l = 1 /\ bad = <<>>
Consume ==
    /\ l <= Len(Rec)
    /\ l' = l + 1
    /\ bad' = IF Explains(Rec[l]) THEN bad ELSE Append(bad, l)
TraceSpec == TraceInit /\ [][Consume]_tvars

Verdict ==
    l = Len(Rec) + 1 => PrintT(<<"JUDGE", ToJson([n |-> l - 1, bad |-> bad])>>)
=============================================================================
