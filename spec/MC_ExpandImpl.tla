----------------------------- MODULE MC_ExpandImpl -----------------------------
(***************************************************************************)
(* `#[derive_ex(..)]` on an `impl` item as a machine, shaped like          *)
(* item_impl.rs `build_by_item_impl`:                                      *)
(*                                                                         *)
(*   trait_of -> op_of -> args(k = 1..n) -> form                           *)
(*      form = Binary: output -> bin(l, r over the four forms) -> assign   *)
(*      form = Assign: from_assign                                         *)
(*   -> done                                                               *)
(*                                                                         *)
(* Every `?` / `bail!` is an edge to "done" with err = TRUE and nothing    *)
(* generated.  TLC checks that the machine is total and deterministic,     *)
(* that it ends where DxExpand!ImplError / ImplCount say, that the forms   *)
(* it generates are pairwise different and never the user's own (no        *)
(* conflicting impl), and that they are the forms DxRun (C09) talks about. *)
(* One IMPLPIPE vector per terminal state is replayed into the real code.  *)
(***************************************************************************)
EXTENDS DxExpand, DxRun, Json

VARIABLES I, pc, k, mb, ma, todo, forms, err
vars == <<I, pc, k, mb, ma, todo, forms, err>>

ArgAlpha == {"bin", "assign", "other_op", "unknown"}
ArgSeqs == UNION {[1..n -> ArgAlpha] : n \in 0..2}
RefForms == {"v", "r"}
Descriptors ==
    {[ikind |-> ik, args |-> a, output |-> o, syntax_ok |-> s, bl |-> bl, br |-> br] :
        ik \in {"inherent", "negative", "bin", "assign", "non_op"}, a \in ArgSeqs, o \in BOOLEAN, s \in BOOLEAN,
        bl \in RefForms, br \in RefForms}
WellFormed(d) ==
    /\ d.ikind = "assign" => d.bl = "v" /\ d.output            \* `impl OpAssign<..> for &T` is not a thing; no Output to forget
    /\ d.ikind \in {"inherent", "negative", "non_op"} => d.bl = "v" /\ d.br = "v" /\ d.output

Init ==
    /\ I \in {d \in Descriptors : WellFormed(d)}
    /\ pc = "trait_of" /\ k = 1 /\ mb = FALSE /\ ma = FALSE /\ todo = <<>> /\ forms = {} /\ err = FALSE

Fail == err' = TRUE /\ forms' = {} /\ pc' = "done"

\* item_impl.trait_ .. ok_or_else / negative
TraitOf ==
    /\ pc = "trait_of"
    /\ IF I.ikind \in {"inherent", "negative"} THEN Fail ELSE pc' = "op_of" /\ UNCHANGED <<err, forms>>
    /\ UNCHANGED <<I, k, mb, ma, todo>>

\* Op::from_ident(&s.ident)?   (the generics are Self-expanded before, which cannot fail)
OpOf ==
    /\ pc = "op_of"
    /\ IF I.ikind = "non_op" THEN Fail ELSE pc' = "args" /\ UNCHANGED <<err, forms>>
    /\ UNCHANGED <<I, k, mb, ma, todo>>

\* Args::from_attr_args: parse2(attr)?, then per listed name Op::from_ident(item)? and the same-operator check
Args ==
    /\ pc = "args"
    /\ IF ~I.syntax_ok THEN Fail /\ UNCHANGED <<k, mb, ma>>
       ELSE IF k > Len(I.args) THEN pc' = "form" /\ UNCHANGED <<err, forms, k, mb, ma>>
       ELSE IF I.args[k] \in {"other_op", "unknown"} THEN Fail /\ UNCHANGED <<k, mb, ma>>
       ELSE /\ k' = k + 1
            /\ mb' = (mb \/ I.args[k] = "bin")
            /\ ma' = (ma \/ I.args[k] = "assign")
            /\ UNCHANGED <<err, forms, pc>>
    /\ UNCHANGED <<I, todo>>

\* match op.form; Binary: find_output_type(item_impl)?
Form ==
    /\ pc = "form"
    /\ IF I.ikind = "bin"
       THEN IF ~I.output THEN Fail /\ UNCHANGED todo
            ELSE /\ pc' = "bin"
                 /\ todo' = IF mb THEN <<<<"v", "v">>, <<"v", "r">>, <<"r", "v">>, <<"r", "r">>>> ELSE <<>>   \* for this in [false, true] for rhs in [false, true]
                 /\ UNCHANGED <<err, forms>>
       ELSE pc' = "from_assign" /\ UNCHANGED <<err, forms, todo>>
    /\ UNCHANGED <<I, k, mb, ma>>

\* impl_binary(l, r, ..): the user's own form yields quote!()
Bin ==
    /\ pc = "bin"
    /\ IF todo = <<>> THEN pc' = "assign" /\ UNCHANGED <<forms, todo>>
       ELSE /\ forms' = IF Head(todo) = <<I.bl, I.br>> THEN forms ELSE forms \cup {<<"bin", Head(todo)[1], Head(todo)[2]>>}
            /\ todo' = Tail(todo) /\ UNCHANGED pc
    /\ UNCHANGED <<I, k, mb, ma, err>>

\* if make_assign { if make_binary { Rhs and &Rhs } else { the user's own Rhs form } }
Assign ==
    /\ pc = "assign"
    /\ forms' = forms \cup {<<"assign", "m", r>> : r \in (IF ~ma THEN {} ELSE AssignRhsForms(I.bl, I.br, mb))}
    /\ pc' = "done"
    /\ UNCHANGED <<I, k, mb, ma, todo, err>>

\* OpForm::Assign: OpAssign cannot be derived from OpAssign; Op from OpAssign is one impl for the user's own Rhs
FromAssign ==
    /\ pc = "from_assign"
    /\ IF ma THEN Fail
       ELSE /\ forms' = IF mb THEN {<<"bin", "v", I.br>>} ELSE {}
            /\ pc' = "done" /\ UNCHANGED err
    /\ UNCHANGED <<I, k, mb, ma, todo>>

Done == pc = "done" /\ UNCHANGED vars
Next == TraitOf \/ OpOf \/ Args \/ Form \/ Bin \/ Assign \/ FromAssign \/ Done
Spec == Init /\ [][Next]_vars /\ WF_vars(Next)

TypeOK == pc \in {"trait_of", "op_of", "args", "form", "bin", "assign", "from_assign", "done"} /\ k \in 1..3 /\ err \in BOOLEAN

EnabledCount ==
    Cardinality({a \in 1..8 :
        CASE a = 1 -> ENABLED TraitOf [] a = 2 -> ENABLED OpOf [] a = 3 -> ENABLED Args [] a = 4 -> ENABLED Form
          [] a = 5 -> ENABLED Bin [] a = 6 -> ENABLED Assign [] a = 7 -> ENABLED FromAssign [] a = 8 -> ENABLED Done})
Deterministic == EnabledCount = 1

MechIsDoc ==
    pc = "done" =>
        /\ err = ImplError(I)
        /\ Cardinality(forms) = (IF err THEN 0 ELSE ImplCount(I))
        /\ (~err => forms = ImplForms(I))

\* never a second impl of the user's own form (it would conflict), and the forms are the ones C09 reasons about
NoConflict ==
    /\ I.ikind = "bin" => <<"bin", I.bl, I.br>> \notin forms
    /\ I.ikind = "assign" => <<"assign", "m", I.br>> \notin forms
FormsAreC09 ==
    pc = "done" /\ ~err /\ I.ikind = "bin" =>
        /\ {<<f[2], f[3]>> : f \in {g \in forms : g[1] = "bin"}} = (IF mb THEN GeneratedBinForms(I.bl, I.br) ELSE {})
        /\ {f[3] : f \in {g \in forms : g[1] = "assign"}} = (IF ma THEN AssignRhsForms(I.bl, I.br, mb) ELSE {})

Emitted ==
    pc = "done" => PrintT(<<"IMPLPIPE", ToJson([I |-> I, err |-> err, n |-> Cardinality(forms),
                                              forms |-> forms])>>)
Terminates == <>(pc = "done")
ErrIsFinal == [][err => err']_vars
=============================================================================
