------------------------------- MODULE MC_Clone -------------------------------
(***************************************************************************)
(* C07 as a run-time state machine: two program variables a, b holding     *)
(* values of one derived type; the user calls  d = s.clone()  and          *)
(* d.clone_from(&s).  Exhaustive BFS over every shape of SHAPES and every  *)
(* pair of values over field values {0,1}.  Every TRANSITION is printed as *)
(* a test vector and replayed on the real derived impls.                   *)
(***************************************************************************)
EXTENDS DxRun, Json

CONSTANT SHAPESET       \* "small" (quick tier) | "large" (thorough tier)

\* number of fields per variant
SmallShapes == {<<0>>, <<2>>, <<0, 1, 2>>, <<1, 1>>, <<3, 0>>}
Shapes == IF SHAPESET = "small" THEN SmallShapes
          ELSE SmallShapes \cup {<<4>>, <<1>>, <<2, 2, 2>>, <<1, 0, 3, 2>>, <<0, 0>>, <<3, 3>>}
Vars == {"a", "b"}

RECURSIVE Tuples(_)
Tuples(n) == IF n = 0 THEN {<<>>} ELSE {Append(t, [tag |-> n - 1, val |-> x]) : t \in Tuples(n - 1), x \in 0..1}
ValuesOfShape(sh) == UNION {{[v |-> i, f |-> t] : t \in Tuples(sh[i])} : i \in DOMAIN sh}

VARIABLES shape, pool, last, log
vars == <<shape, pool, last, log>>

Init ==
    /\ shape \in Shapes
    /\ pool \in [Vars -> ValuesOfShape(shape)]
    /\ last = pool
    /\ log = <<>>

Emit(act, d, s) ==
    PrintT(<<"STEP", ToJson([shape |-> shape, pre |-> pool, act |-> act, d |-> d, s |-> s])>>)

Clone(d, s) ==
    /\ d # s
    /\ pool' = [pool EXCEPT ![d] = pool[s]]
    /\ last' = [last EXCEPT ![d] = pool[s]]
    /\ log' = CloneLog(pool[s])
    /\ Emit("clone", d, s)
    /\ UNCHANGED shape

CloneFrom(d, s) ==
    /\ d # s
    /\ pool' = [pool EXCEPT ![d] = pool[s]]
    /\ last' = [last EXCEPT ![d] = pool[s]]
    /\ log' = CloneFromLog(pool[d], pool[s])
    /\ Emit("clone_from", d, s)
    /\ UNCHANGED shape

Next == \E d \in Vars, s \in Vars : Clone(d, s) \/ CloneFrom(d, s)
Spec == Init /\ [][Next]_vars

\* after any history every variable holds the value last assigned to it, and stays a value of the type
LastAssigned == pool = last
TypeOK == \A x \in Vars : pool[x] \in ValuesOfShape(shape)
\* one call per field of the source, never more (clone_from on equal variants: no clone at all)
LogLength == Len(log) \in {0} \cup {Len(pool[x].f) : x \in Vars}
VIEW_NoLog == <<shape, pool, last>>
=============================================================================
