CONSTANT MAXLEN = 4
SPECIFICATION Spec
INVARIANTS StripCorrect StripKeepsForeign StripOrder StripIdempotent StripRemovesOwn StripWeak DumpLocal DumpOrder
CHECK_DEADLOCK FALSE
