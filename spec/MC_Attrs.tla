------------------------------- MODULE MC_Attrs -------------------------------
(***************************************************************************)
(* Two small machines of the expander's bookkeeping, model-checked          *)
(* exhaustively:                                                            *)
(*  (1) remove_attrs: the retain loop over the attributes of one position   *)
(*      (type, variant or field), for every interleaving of foreign,        *)
(*      helper and derive_ex attributes up to length MAXLEN and every       *)
(*      derived set of a representative family;                             *)
(*  (2) apply_dump over the flattened entry list, with a nondeterministic   *)
(*      build result per entry.                                             *)
(***************************************************************************)
EXTENDS DxAttrs

CONSTANT MAXLEN

Alphabet == {"derive_ex", "ord", "partial_eq", "hash", "debug", "default", "doc", "repr"}
DFamily == {{"Clone"}, {"Debug"}, {"Default", "Clone"}, {"Ord"}, {"PartialOrd"}, {"Hash"}, {"Eq", "PartialEq"},
            {"PartialEq", "Debug"}, {"Add"}, {"Ord", "PartialOrd", "Eq", "PartialEq", "Hash", "Debug", "Default"}}

Lists2 == {<<[traits |-> <<[t |-> "Clone", dump |-> d1]>>, dump |-> s1]>> : d1 \in BOOLEAN, s1 \in BOOLEAN} \cup
          {<<[traits |-> <<[t |-> "Clone", dump |-> d1], [t |-> "Debug", dump |-> d2]>>, dump |-> s1],
             [traits |-> <<[t |-> "Default", dump |-> d3]>>, dump |-> s2]>>
             : d1 \in BOOLEAN, d2 \in BOOLEAN, d3 \in BOOLEAN, s1 \in BOOLEAN, s2 \in BOOLEAN}

VARIABLES mode, names, D, i, kept, lists, built, j, classes
vars == <<mode, names, D, i, kept, lists, built, j, classes>>

SeqsUpTo(S, n) == UNION {[1..m -> S] : m \in 0..n}

Init ==
    \/ /\ mode = "strip"
       /\ names \in SeqsUpTo(Alphabet, MAXLEN) /\ D \in DFamily
       /\ i = 1 /\ kept = <<>>
       /\ lists = <<>> /\ built = <<>> /\ j = 0 /\ classes = <<>>
    \/ /\ mode = "dump"
       /\ lists \in Lists2
       /\ built \in [1..Len(Entries(lists)) -> BOOLEAN]
       /\ j = 1 /\ classes = <<>>
       /\ names = <<>> /\ D = {} /\ i = 0 /\ kept = <<>>

\* attrs.retain(|attr| !kinds.is_match(attr)) - one attribute per step
Retain ==
    /\ mode = "strip" /\ i <= Len(names)
    /\ kept' = IF Owned(names[i], D) THEN kept ELSE Append(kept, i)
    /\ i' = i + 1
    /\ UNCHANGED <<mode, names, D, lists, built, j, classes>>

\* ts_all.extend(e.apply_dump(result)) - one entry per step
ApplyDump ==
    /\ mode = "dump" /\ j <= Len(Entries(lists))
    /\ classes' = Append(classes, EntryClass(built[j], Entries(lists)[j].dump))
    /\ j' = j + 1
    /\ UNCHANGED <<mode, names, D, i, kept, lists, built>>

Next == Retain \/ ApplyDump
Spec == Init /\ [][Next]_vars

StripDone == mode = "strip" /\ i = Len(names) + 1
StripCorrect == StripDone => kept = KeptIdx(names, D)
StripKeepsForeign == StripDone => \A m \in DOMAIN names : IsForeign(names[m]) => \E n \in DOMAIN kept : kept[n] = m
StripOrder == IsIncreasing(kept)
StripIdempotent == StripDone => StripNames(StripNames(names, D), D) = StripNames(names, D)
StripRemovesOwn == StripDone => \A n \in DOMAIN kept : ~Owned(names[kept[n]], D)
\* the unknown-D contract is implied by the known-D one
StripWeak == StripDone => KeptOkUnknownD(names, kept)

DumpDone == mode = "dump" /\ j = Len(Entries(lists)) + 1
NoDumpLists == [m \in DOMAIN lists |-> [traits |-> [n \in DOMAIN lists[m].traits |-> [t |-> lists[m].traits[n].t, dump |-> FALSE]],
                                       dump |-> FALSE]]
\* dump never changes the class of an entry that is not dumped, and a dumped entry was an impl
DumpLocal ==
    DumpDone => \A m \in DOMAIN classes :
        LET plain == EntryClass(built[m], Entries(NoDumpLists)[m].dump)
        IN  IF Entries(lists)[m].dump /\ built[m] THEN classes[m] = "dump" /\ plain = "impl"
            ELSE classes[m] = plain
DumpOrder == DumpDone => Len(classes) = Len(Entries(lists))
=============================================================================
