------------------------------- MODULE DxBase -------------------------------
(***************************************************************************)
(* Vocabulary shared by every module of the derive-ex specification:       *)
(* trait names, helper-attribute names, the documentation's tables         *)
(* (doc/derive_ex.md) and small generic helpers.                           *)
(*                                                                         *)
(* Everything here is a transcription of the DOCUMENTATION, not of the     *)
(* code.  The mechanism-shaped transcription of the code lives next to     *)
(* each rule in the per-family modules and TLC checks that the two agree.  *)
(***************************************************************************)
EXTENDS Naturals, Integers, Sequences, FiniteSets, TLC

(***************************************************************************)
(* Traits                                                                  *)
(***************************************************************************)
CmpTraits == {"Ord", "PartialOrd", "Eq", "PartialEq", "Hash"}
BinOps    == {"Add", "BitAnd", "BitOr", "BitXor", "Div", "Mul", "Rem", "Shl", "Shr", "Sub"}
AssignOps == {"AddAssign", "BitAndAssign", "BitOrAssign", "BitXorAssign", "DivAssign",
              "MulAssign", "RemAssign", "ShlAssign", "ShrAssign", "SubAssign"}
UnOps     == {"Neg", "Not"}
OtherTraits == {"Copy", "Clone", "Debug", "Default", "Deref", "DerefMut"}
AllTraits == CmpTraits \cup BinOps \cup AssignOps \cup UnOps \cup OtherTraits

\* "derive `X` for enum is not supported" for everything else (doc: Attributes table)
EnumTraits   == CmpTraits \cup {"Copy", "Clone", "Debug", "Default"}
StructTraits == AllTraits

(***************************************************************************)
(* Helper attributes.  doc: "Derive Ord, PartialOrd, Eq, PartialEq, Hash"  *)
(* table, listed top to bottom; "the helper attributes in the lines below  *)
(* are applied preferentially".                                            *)
(***************************************************************************)
CmpAttrs     == {"ord", "partial_ord", "eq", "partial_eq", "hash"}
CmpAttrTable == <<"ord", "partial_ord", "eq", "partial_eq", "hash">>   \* table order, least specific first
HelperAttrs  == CmpAttrs \cup {"debug", "default"}
OwnAttrs     == HelperAttrs \cup {"derive_ex"}

\* A tick in the documentation's table.
Relevant(a, t) ==
    \/ a = "ord"         /\ t \in CmpTraits
    \/ a = "partial_ord" /\ t \in {"PartialOrd", "PartialEq"}
    \/ a = "eq"          /\ t \in {"Eq", "PartialEq", "Hash"}
    \/ a = "partial_eq"  /\ t \in {"Eq", "PartialEq"}
    \/ a = "hash"        /\ t = "Hash"
    \/ a = "debug"       /\ t = "Debug"
    \/ a = "default"     /\ t = "Default"

\* Behavioural table: which attribute can positively change which trait.  It is the doc
\* table minus (partial_eq, Eq): `#[partial_eq(..)]` never customises `Eq`, its presence only
\* makes `Eq` refuse (pinned by the repository's own trybuild cases eq_with_partial_eq_*).
Applies(a, t) == Relevant(a, t) /\ ~(a = "partial_eq" /\ t = "Eq")

\* A helper attribute belongs to derive_ex for this item iff some derived trait has a tick.
Recognised(a, D) == \E t \in D : Relevant(a, t)

\* Position of an attribute in the doc table (1 = least specific).
AttrRank(a) == CHOOSE i \in 1..5 : CmpAttrTable[i] = a

\* doc: most specific applicable attribute first.
RECURSIVE ChainFrom(_, _)
ChainFrom(t, i) ==
    IF i = 0 THEN <<>>
    ELSE IF Applies(CmpAttrTable[i], t) THEN <<CmpAttrTable[i]>> \o ChainFrom(t, i - 1)
         ELSE ChainFrom(t, i - 1)
DocChain(t) == ChainFrom(t, 5)

\* The same chains written out, as the code walks them (compare_op.rs build_*_expr).
Chain(t) ==
    CASE t = "PartialEq"  -> <<"partial_eq", "eq", "partial_ord", "ord">>
      [] t = "Eq"         -> <<"eq", "ord">>
      [] t = "PartialOrd" -> <<"partial_ord", "ord">>
      [] t = "Ord"        -> <<"ord">>
      [] t = "Hash"       -> <<"hash", "eq", "ord">>

ChainsAgree == \A t \in CmpTraits : Chain(t) = DocChain(t)

(***************************************************************************)
(* Generic helpers                                                         *)
(***************************************************************************)
Range(s) == {s[i] : i \in DOMAIN s}
SeqToSet(s) == Range(s)
Max2(a, b) == IF a > b THEN a ELSE b

\* supertrait closure used to pick the trait sets a user can actually compile
SuperClosed(D) ==
    /\ ("Ord" \in D => {"PartialOrd", "Eq"} \subseteq D)
    /\ ("PartialOrd" \in D => "PartialEq" \in D)
    /\ ("Eq" \in D => "PartialEq" \in D)
=============================================================================
