------------------------------ MODULE MC_Bounds ------------------------------
(***************************************************************************)
(* The bound-resolution part of the expander as a state machine: one step  *)
(* per bound level (WhereClauseBuilder::push_bounds), with the `use` flag  *)
(* forked when a variant or a field scope is entered.  Instantiated on     *)
(* families of items that cover the nine-level table and the comparison    *)
(* helper chains.                                                          *)
(*                                                                         *)
(* Checked on the design: at the end the accumulated where-clause equals   *)
(* the declarative DocWhere (reached-levels formulation) and the folded    *)
(* MechWhere; inside a scope the flag never comes back; the accumulated    *)
(* clause only grows; the declared where-clause is always retained.        *)
(***************************************************************************)
EXTENDS DxBounds, Json

CONSTANT FAMILY        \* "nine3" | "nine4" | "cmp" | "cmpq" (smaller alphabets, quick tier)

VARIABLES P, pc, k, vi, fj, useT, useV, useF, acc
vars == <<P, pc, k, vi, fj, useT, useV, useF, acc>>

NoH == [a \in HelperAttrs |-> "absent"]
LS(h, th, co) == [h |-> h, this |-> th, common |-> co]
NoLS == LS(NoH, "absent", "absent")
TyParam == [k |-> "param", i |-> 1]
OneParam == <<[k |-> "type"]>>
Fld(b, cmp, dbg, dval) == [ty |-> TyParam, b |-> b, cmp |-> cmp, dbg |-> dbg, dval |-> dval]

A3 == {"absent", "empty", "Pdd"}
A4 == {"absent", "empty", "P", "Pdd"}
Alpha == IF FAMILY = "nine3" THEN A3 ELSE A4

\* --- family "nine": Debug on an enum with two variants; nine levels on (type, variant 1, field 1.1);
\*     variant 2 and its field carry nothing so scoping is visible.  `ch` is the assignment.
NineChoices == [1..9 -> Alpha]
NineItem(ch) ==
    [kind |-> "enum", t |-> "Debug", D |-> <<"Debug">>, params |-> OneParam, decl |-> 1, tval |-> FALSE,
     tb |-> LS([NoH EXCEPT !["debug"] = ch[1]], ch[2], ch[3]),
     variants |-> <<[shape |-> "tuple", dmark |-> FALSE,
                     vb |-> LS([NoH EXCEPT !["debug"] = ch[4]], ch[5], ch[6]),
                     fields |-> <<Fld(LS([NoH EXCEPT !["debug"] = ch[7]], ch[8], ch[9]), PlainCfg, "none", FALSE)>>],
                    [shape |-> "tuple", dmark |-> FALSE, vb |-> NoLS,
                     fields |-> <<Fld(NoLS, PlainCfg, "none", FALSE)>>]>>]

\* --- family "cmp": comparison traits on a struct with one field; bound(...) on every helper
\*     attribute of the field, crossed with which attribute selects the comparator.
SelCfgs ==
    {PlainCfg} \cup
    {[PlainCfg EXCEPT ![a] = Opt(FALSE, FALSE, s)] : a \in CmpAttrs, s \in {"key", "by"}} \cup
    {[PlainCfg EXCEPT !["ord"] = Opt(FALSE, FALSE, "key"), !["partial_eq"] = Opt(FALSE, FALSE, "by")],
     [PlainCfg EXCEPT !["eq"] = Opt(FALSE, FALSE, "key"), !["hash"] = Opt(FALSE, FALSE, "by")],
     [PlainCfg EXCEPT !["ord"] = Opt(TRUE, FALSE, "none")]}
S3 == {"absent", "P", "Pdd"}
S2 == {"absent", "Pdd"}
CmpChoices ==
    IF FAMILY = "cmpq"
    THEN [t : CmpTraits, c : SelCfgs, t1 : S2, t2 : {"absent", "P"}, h1 : S3, h2 : S3, h3 : S3, h4 : S3, h5 : S2,
          f8 : {"absent", "P"}]
    ELSE [t : CmpTraits, c : SelCfgs, t1 : S3, t2 : S3, h1 : A4, h2 : S3, h3 : A4, h4 : S3, h5 : S3,
          f8 : {"absent", "P"}]
CmpItem(ch) ==
    [kind |-> "struct", t |-> ch.t, D |-> <<"Ord", "PartialOrd", "Eq", "PartialEq", "Hash">>,
     params |-> OneParam, decl |-> 0, tval |-> FALSE,
     tb |-> LS([NoH EXCEPT !["ord"] = ch.t1, !["eq"] = ch.t2], "absent", "absent"),
     variants |-> <<[shape |-> "named", dmark |-> FALSE, vb |-> NoLS,
                     fields |-> <<Fld(LS([NoH EXCEPT !["ord"] = ch.h1, !["partial_ord"] = ch.h2, !["eq"] = ch.h3,
                                                     !["partial_eq"] = ch.h4, !["hash"] = ch.h5], ch.f8, "absent"),
                                      ch.c, "none", FALSE)>>]>>]

IsCmpFamily == FAMILY \in {"cmp", "cmpq"}
Choices == IF IsCmpFamily THEN CmpChoices ELSE NineChoices
ItemOf(ch) == IF IsCmpFamily THEN CmpItem(ch) ELSE NineItem(ch)

NextIn(S, after) == IF \E x \in S : x > after THEN CHOOSE x \in S : x > after /\ \A y \in S : y > after => x <= y ELSE 0

Init ==
    /\ \E ch \in Choices : P = ItemOf(ch)
    /\ pc = "type" /\ k = 1 /\ vi = 0 /\ fj = 0
    /\ useT = TRUE /\ useV = TRUE /\ useF = TRUE
    /\ acc = DeclTags(P)

\* consult one level of the current scope
Consult(path, use) == IF use THEN <<Cont(path[k].b), acc \cup Contrib(path[k].b, path[k].id)>> ELSE <<FALSE, acc>>

GoVariant(after) ==
    LET n == NextIn(VisitedVariants(P), after)
    IN  IF n = 0 THEN /\ pc' = "done" /\ UNCHANGED <<k, vi, fj, useV, useF>>
        ELSE /\ pc' = "variant" /\ vi' = n /\ k' = 1 /\ useV' = useT /\ UNCHANGED <<fj, useF>>

GoField(after) ==
    LET n == NextIn(VisitedFields(P, vi), after)
    IN  IF n = 0 THEN GoVariant(vi)
        ELSE /\ pc' = "field" /\ fj' = n /\ k' = 1 /\ useF' = useV /\ UNCHANGED <<vi, useV>>

TypeLevel ==
    /\ pc = "type" /\ k <= Len(TypePath(P))
    /\ LET r == Consult(TypePath(P), useT) IN useT' = r[1] /\ acc' = r[2]
    /\ k' = k + 1 /\ UNCHANGED <<P, pc, vi, fj, useV, useF>>
TypeDone ==
    /\ pc = "type" /\ k > Len(TypePath(P))
    /\ GoVariant(0) /\ UNCHANGED <<P, useT, acc>>

VariantLevel ==
    /\ pc = "variant" /\ k <= Len(VariantPath(P, vi))
    /\ LET r == Consult(VariantPath(P, vi), useV) IN useV' = r[1] /\ acc' = r[2]
    /\ k' = k + 1 /\ UNCHANGED <<P, pc, vi, fj, useT, useF>>
VariantDone ==
    /\ pc = "variant" /\ k > Len(VariantPath(P, vi))
    /\ GoField(0) /\ UNCHANGED <<P, useT, acc>>

FieldLevel ==
    /\ pc = "field" /\ k <= Len(FieldPath(P, vi, fj))
    /\ LET r == Consult(FieldPath(P, vi, fj), useF) IN useF' = r[1] /\ acc' = r[2]
    /\ k' = k + 1 /\ UNCHANGED <<P, pc, vi, fj, useT, useV>>
FieldDone ==
    /\ pc = "field" /\ k > Len(FieldPath(P, vi, fj))
    /\ acc' = IF useF /\ FieldUsed(P, vi, fj) /\ Mentions(P.variants[vi].fields[fj].ty, P.params)
              THEN acc \cup {"field@" \o ToString(vi) \o "." \o ToString(fj)} ELSE acc
    /\ GoField(fj) /\ UNCHANGED <<P, useT>>

Next == TypeLevel \/ TypeDone \/ VariantLevel \/ VariantDone \/ FieldLevel \/ FieldDone
Spec == Init /\ [][Next]_vars

(***************************************************************************)
(* Properties                                                              *)
(***************************************************************************)
Progress == pc # "done" => ENABLED Next
MechIsDoc == pc = "done" => /\ acc = DocWhere(P)
                            /\ acc = MechWhere(P)
DeclRetained == DeclTags(P) \subseteq acc
\* C03 on the model: with nothing explicit, the bound side equals the body side
DefaultIsUsedFields == (pc = "done" /\ AllDefault(P)) => acc = DefaultWhere(P)
\* a stop on variant 1 / field 1.1 never removes what the untouched variant 2 contributes
ScopeIsolation ==
    (pc = "done" /\ ~IsCmpFamily) =>
        (("field@2.1" \in acc) <=> DocEnd(TypePath(P)))

\* action properties
GrowOnly == [][acc \subseteq acc']_vars
FlagNeverReturns ==
    [][/\ (pc = "type" /\ pc' = "type" /\ ~useT) => ~useT'
       /\ (pc = "variant" /\ pc' = "variant" /\ ~useV) => ~useV'
       /\ (pc = "field" /\ pc' = "field" /\ ~useF) => ~useF']_vars
=============================================================================
