------------------------------- MODULE DxBounds ------------------------------
(***************************************************************************)
(* Trait bounds of the generated impls (properties C03 and C04).           *)
(*                                                                         *)
(* doc "Specify trait bound": bound(...) can be written at nine places,    *)
(*                                       struct/enum  variant  field       *)
(*   #[trait_name(bound(...))]                1          4       7         *)
(*   #[derive_ex(TraitName(bound(...)))]      2          5       8         *)
(*   #[derive_ex(TraitName, bound(...))]      3          6       9         *)
(* the lower the number the higher the priority; `..` means "also use the  *)
(* lower priority bound"; an empty bound() means no constraint; a type T   *)
(* means `T : Trait`; a predicate is used as is.  By default the bound is  *)
(* `FieldType : Trait` for the fields the generated code uses and whose    *)
(* type contains a generic parameter.                                      *)
(*                                                                         *)
(* A where-clause is modelled as a SET of tags, one per possible origin:   *)
(*    "decl@k"        k-th predicate of the item's own where-clause        *)
(*    "pred@<level>"  the marker predicate written at that level           *)
(*    "ty@<level>"    `Ty : Trait` for the type written at that level      *)
(*    "field@i.j"     default bound for the type of field j of variant i   *)
(* <level> is  t | v<i> | f<i>.<j>  followed by  .h.<attr> | .this | .common*)
(* The concretiser gives every level its own marker trait / type so each   *)
(* level's contribution is individually visible in the real expansion.     *)
(***************************************************************************)
EXTENDS DxTypes, DxCmp

BoundOpts == {"absent", "empty", "P", "dd", "Pdd", "T", "Tdd", "ddP", "ddT"}
\* absent | bound() | bound(P) | bound(..) | bound(P, ..) | bound(Ty) | bound(Ty, ..) | bound(.., P) | bound(.., Ty)
\* doc: "resolution continues past a level only if it is absent or CONTAINS `..`": the position of `..` is irrelevant

Cont(b) == b \in {"absent", "dd", "Pdd", "Tdd", "ddP", "ddT"}          \* resolution continues past this level
Contrib(b, id) ==
    (IF b \in {"P", "Pdd", "ddP"} THEN {"pred@" \o id} ELSE {}) \cup
    (IF b \in {"T", "Tdd", "ddT"} THEN {"ty@" \o id} ELSE {})

(***************************************************************************)
(* Which helper attributes carry bound(...) for a trait, most specific     *)
(* first (property C04: "at every placement, type, variant and field       *)
(* alike").                                                                *)
(***************************************************************************)
HelperChain(t) ==
    IF t \in CmpTraits THEN DocChain(t)
    ELSE IF t = "Debug" THEN <<"debug">>
    ELSE IF t = "Default" THEN <<"default">>
    ELSE <<>>

Lvl(b, id) == [b |-> b, id |-> id]

\* helper levels of a scope; an attribute that is not derive_ex's for the derived set D is absent
HelperLevels(t, ls, sid, D) ==
    [i \in DOMAIN HelperChain(t) |->
        LET a == HelperChain(t)[i]
        IN  Lvl(IF Recognised(a, D) THEN ls.h[a] ELSE "absent", sid \o ".h." \o a)]
ArgLevels(ls, sid) == <<Lvl(ls.this, sid \o ".this"), Lvl(ls.common, sid \o ".common")>>
ScopeLevels(t, ls, sid, D) == HelperLevels(t, ls, sid, D) \o ArgLevels(ls, sid)

VId(i) == "v" \o ToString(i)
FId(i, j) == "f" \o ToString(i) \o "." \o ToString(j)

(***************************************************************************)
(* Doc layer: a level is REACHED iff every level before it on its path     *)
(* continues; reached levels contribute; the end of the path is reached    *)
(* iff all levels continue.                                                *)
(***************************************************************************)
ReachedAt(path, k) == \A m \in 1..(k - 1) : Cont(path[m].b)
DocContrib(path) == UNION {IF ReachedAt(path, k) THEN Contrib(path[k].b, path[k].id) ELSE {} : k \in DOMAIN path}
DocEnd(path) == \A m \in DOMAIN path : Cont(path[m].b)

(***************************************************************************)
(* Mechanism layer: a `use` flag threaded through the levels in order      *)
(* (WhereClauseBuilder::push_bounds returns the flag; every caller guards  *)
(* the next push with it).                                                 *)
(***************************************************************************)
RECURSIVE Thread(_, _, _, _)
Thread(path, k, use, acc) ==
    IF k > Len(path) THEN [use |-> use, acc |-> acc]
    ELSE IF use THEN Thread(path, k + 1, Cont(path[k].b), acc \cup Contrib(path[k].b, path[k].id))
         ELSE Thread(path, k + 1, FALSE, acc)
MechWalk(path) == Thread(path, 1, TRUE, {})

(***************************************************************************)
(* Which variants / fields the generated code visits, and which fields it  *)
(* really uses through the trait (C03).                                    *)
(***************************************************************************)
IsCmp(t) == t \in CmpTraits
FieldCmpOutcome(f, t, D) == FieldOutcome(f.cmp, t, D)

HasTransparent(v) == \E j \in DOMAIN v.fields : v.fields[j].dbg = "transparent"

\* variants whose levels / fields are consulted at all
VisitedVariants(P) ==
    IF P.t \in {"Deref", "DerefMut"} THEN {}
    ELSE IF P.t = "Default"
         THEN IF P.tval THEN {}                                       \* type-level value: nothing else is looked at
              ELSE IF P.kind = "struct" \/ (Len(P.variants) = 1 /\ ~P.variants[1].dmark) THEN {1}
              ELSE {i \in DOMAIN P.variants : P.variants[i].dmark}
    ELSE DOMAIN P.variants

\* fields whose bound levels are consulted
VisitedFields(P, i) ==
    LET v == P.variants[i] t == P.t
    IN  IF t = "Debug"
        THEN IF HasTransparent(v) THEN {j \in DOMAIN v.fields : v.fields[j].dbg = "transparent"}
             ELSE {j \in DOMAIN v.fields : v.fields[j].dbg # "ignore"}
        ELSE IF IsCmp(t) THEN {j \in DOMAIN v.fields : FieldCmpOutcome(v.fields[j], t, Range(P.D)).o = "use"}
        ELSE DOMAIN v.fields

\* does the generated body call the trait on the field's own type?
FieldUsed(P, i, j) ==
    LET f == P.variants[i].fields[j] t == P.t
    IN  IF IsCmp(t) THEN FieldCmpOutcome(f, t, Range(P.D)).k = "default"
        ELSE IF t = "Default" THEN ~f.dval
        ELSE TRUE

\* field-level path.  For comparison traits the helper attributes are consulted most specific
\* first and only down to the attribute whose key / by is selected ("if by or key is specified
\* with a high-priority helper attribute, the bounds of a lower-priority one are not used").
FieldHelperLevels(P, i, j) ==
    LET f == P.variants[i].fields[j] t == P.t D == Range(P.D)
        all == HelperLevels(t, f.b, FId(i, j), D)
    IN  IF ~IsCmp(t) THEN all
        ELSE LET o == FieldCmpOutcome(f, t, D)
             IN  IF o.k \in {"key", "by"}
                 THEN LET cut == CHOOSE k \in DOMAIN HelperChain(t) : HelperChain(t)[k] = o.a
                      IN  SubSeq(all, 1, cut)
                 ELSE all
FieldPath(P, i, j) == FieldHelperLevels(P, i, j) \o ArgLevels(P.variants[i].fields[j].b, FId(i, j))

TypePath(P) == ScopeLevels(P.t, P.tb, "t", Range(P.D))
VariantPath(P, i) == IF P.kind = "enum" THEN ScopeLevels(P.t, P.variants[i].vb, VId(i), Range(P.D)) ELSE <<>>

DeclTags(P) == {"decl@" \o ToString(k) : k \in 1..P.decl}

(***************************************************************************)
(* The where-clause: doc layer                                             *)
(***************************************************************************)
DocWhere(P) ==
    LET tp == TypePath(P)
    IN  DeclTags(P) \cup DocContrib(tp) \cup
        UNION {
            LET vp == tp \o VariantPath(P, i)
            IN  DocContrib(vp) \cup
                UNION {
                    LET fp == vp \o FieldPath(P, i, j)
                    IN  DocContrib(fp) \cup
                        (IF DocEnd(fp) /\ FieldUsed(P, i, j) /\ Mentions(P.variants[i].fields[j].ty, P.params)
                         THEN {"field@" \o ToString(i) \o "." \o ToString(j)} ELSE {})
                    : j \in VisitedFields(P, i)}
            : i \in VisitedVariants(P)}

(***************************************************************************)
(* The where-clause: mechanism layer (flag threading, scopes fork the flag)*)
(***************************************************************************)
MechWhere(P) ==
    LET tw == MechWalk(TypePath(P))
    IN  DeclTags(P) \cup tw.acc \cup
        UNION {
            LET vw == Thread(VariantPath(P, i), 1, tw.use, {})
            IN  vw.acc \cup
                UNION {
                    LET fw == Thread(FieldPath(P, i, j), 1, vw.use, {})
                    IN  fw.acc \cup
                        (IF fw.use /\ FieldUsed(P, i, j) /\ Mentions(P.variants[i].fields[j].ty, P.params)
                         THEN {"field@" \o ToString(i) \o "." \o ToString(j)} ELSE {})
                    : j \in VisitedFields(P, i)}
            : i \in VisitedVariants(P)}

\* C03: the bound side and the body side coincide - the default bound is demanded for exactly
\* the visited fields the body uses and whose type mentions a parameter, when nothing is explicit
NoExplicit(ls) == ls.this = "absent" /\ ls.common = "absent" /\ \A a \in HelperAttrs : ls.h[a] = "absent"
AllDefault(P) ==
    /\ NoExplicit(P.tb)
    /\ \A i \in DOMAIN P.variants :
          /\ NoExplicit(P.variants[i].vb)
          /\ \A j \in DOMAIN P.variants[i].fields : NoExplicit(P.variants[i].fields[j].b)
DefaultWhere(P) ==
    DeclTags(P) \cup
    {"field@" \o ToString(i) \o "." \o ToString(j) :
        <<i, j>> \in {p \in (DOMAIN P.variants) \X (1..8) :
                        /\ p[1] \in VisitedVariants(P)
                        /\ p[2] \in VisitedFields(P, p[1])
                        /\ FieldUsed(P, p[1], p[2])
                        /\ Mentions(P.variants[p[1]].fields[p[2]].ty, P.params)}}
=============================================================================
