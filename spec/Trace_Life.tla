------------------------------ MODULE Trace_Life ------------------------------
(***************************************************************************)
(* Trace specification of the life-cycle family: histories of calls on ONE *)
(* derived type, recorded from programs compiled with the genuine          *)
(* proc-macro, validated WITH STATE against DxLife.                        *)
(*                                                                         *)
(*   life_reset  a new item L is declared; every variable holds the first  *)
(*               value of the type (the logged pool must say so)           *)
(*   life        one call x (the action record MC_Life printed): the       *)
(*               model's pool advances by DxLife.Step; the logged result,  *)
(*               the logged calls on the field type, the logged pool after *)
(*               the call and "borrowed operands are unchanged" must be     *)
(*               exactly what DxLife prescribes in the CURRENT state       *)
(*                                                                         *)
(* Validation never stops at the first surprise: an unexplained line is    *)
(* recorded in `bad` and the model re-synchronises from the logged         *)
(* post-state, so the rest of the history is still checked.                *)
(***************************************************************************)
EXTENDS DxLife, Json, IOUtils

Rec == ndJsonDeserialize(IOEnv.TRACE)

VARIABLES l, bad, L, pool
tvars == <<l, bad, L, pool>>

NoL == [kind |-> "none"]
InitialPool(item, vs) == [x \in vs |-> LSet(1, [j \in 1..LNF(item, 1) |-> 0])]

ExplainsReset(e) ==
    /\ \A t \in Range(e.L.D) : ItemAccepted(e.L, t, Range(e.L.D))     \* only items derive_ex must accept are run
    /\ e.post = InitialPool(e.L, DOMAIN e.post)

\* e.judge = FALSE: a call that belongs to another property's check; it is replayed for its effect on the state only
\* (the model re-synchronises from its logged post-state like after any other line)
ExplainsCall(e) ==
  ~e.judge \/
    /\ L # NoL
    /\ Offered(L, e.x)
    /\ ~e.panicked
    /\ e.post = Step(L, pool, e.x)
    /\ e.result = Result(L, pool, e.x)
    /\ e.log = CallLog(L, pool, e.x)
    /\ e.operands_ok                       \* borrowed operands are left unchanged

Explains(e) ==
    CASE e.ev = "life_reset" -> ExplainsReset(e)
      [] e.ev = "life"       -> ExplainsCall(e)
      [] OTHER               -> FALSE      \* e.g. "rustc_failed": an accepted item must compile

TraceInit == l = 1 /\ bad = <<>> /\ L = NoL /\ pool = <<>>
Consume ==
    /\ l <= Len(Rec)
    /\ l' = l + 1
    /\ bad' = IF Explains(Rec[l]) THEN bad ELSE Append(bad, l)
    /\ L' = IF Rec[l].ev = "life_reset" THEN Rec[l].L ELSE IF Rec[l].ev = "life" THEN L ELSE NoL
    /\ pool' = IF Rec[l].ev \in {"life_reset", "life"} THEN Rec[l].post ELSE pool      \* logged post-state (re-sync)
TraceSpec == TraceInit /\ [][Consume]_tvars

Verdict ==
    l = Len(Rec) + 1 => PrintT(<<"JUDGE", ToJson([n |-> l - 1, bad |-> bad])>>)
=============================================================================
