#!/bin/bash
# usage: import_seed.sh <scratch worktree, e.g. /tmp/seed3-C07> <property id> <letter of mutant a> <letter of mutant b>
# Copies OUT/a, OUT/b of a seeding sub-agent into /verif/seeded/<prop>-<letter>/ and confirms each one with verify_seed.sh
# (demo passes without the patch; with it the unedited suite passes and the demo fails).  Keeps only confirmed mutants.
set -u
WT=$1; P=$2; LA=$3; LB=$4
for pair in "a:$LA" "b:$LB"; do
  src=${pair%%:*}; dst=${pair##*:}
  [ -d "$WT/OUT/$src" ] || { echo "$P-$dst: no OUT/$src"; continue; }
  MD=/verif/seeded/$P-$dst
  rm -rf "$MD"; mkdir -p "$MD"; cp -r "$WT/OUT/$src/." "$MD/"
  python3 - "$MD" "$WT" <<'PY'
import json, sys, subprocess
md, wt = sys.argv[1], sys.argv[2]
m = json.load(open(md + "/meta.json"))
m["base_commit"] = subprocess.run(["git", "-C", wt, "rev-parse", "--short", "HEAD"], capture_output=True, text=True).stdout.strip()
m["verified_by"] = "bin/verify_seed.sh in a scratch worktree: demo passes without patch, fails with patch; existing suite (397 incl. doctests) passes with patch"
json.dump(m, open(md + "/meta.json", "w"), indent=1)
PY
  out=$(/verif/bin/verify_seed.sh "$WT" "$MD" 2>&1 | tail -n 1)
  echo "$P-$dst: $out"
  case "$out" in VERIFIED*) ;; *) mv "$MD" "/verif/work/rejected_$P-$dst" 2>/dev/null;; esac
done
