#!/bin/bash
# usage: verify_seed.sh <worktree> <mutant-dir>   (mutant-dir contains patch.diff, meta.json, demo files)
# Confirms: demo passes without patch; with patch the existing suite passes and the demo fails.
set -u
WT=$1; MD=$2
cd "$WT" || exit 2
git checkout -q -- . 
# stash away all seed demos, then install only this mutant's
mkdir -p "$WT/.seedstash"; 
for f in derive-ex-tests/tests/seed_demo_*; do [ -e "$f" ] && rm -rf "$WT/.seedstash/$(basename $f)" && mv "$f" "$WT/.seedstash/"; done
for f in "$MD"/seed_demo_*; do [ -e "$f" ] && cp -r "$f" derive-ex-tests/tests/; done
CMD=$(python3 -c "import json,sys;print(json.load(open('$MD/meta.json'))['demo_cmd'])")
echo "== demo_cmd: $CMD"
echo "== [1] demo WITHOUT patch (expect pass)"
( eval "$CMD" ) > "$MD/verify_nopatch.log" 2>&1; R1=$?
echo "   exit=$R1"
git apply "$MD/patch.diff" || { echo "PATCH DOES NOT APPLY"; exit 3; }
echo "== [2] demo WITH patch (expect fail)"
( eval "$CMD" ) > "$MD/verify_patch.log" 2>&1; R2=$?
echo "   exit=$R2"
echo "== [3] existing suite WITH patch (expect pass), demos moved aside"
for f in derive-ex-tests/tests/seed_demo_*; do [ -e "$f" ] && rm -rf "$f"; done
cargo test --workspace --no-fail-fast --offline > "$MD/verify_suite.log" 2>&1; R3=$?
P=$(grep -E "^test result" "$MD/verify_suite.log" | awk '{p+=$4; f+=$6} END {print p" passed "f" failed"}')
echo "   exit=$R3 $P"
git checkout -q -- .
for f in "$WT/.seedstash"/*; do [ -e "$f" ] && mv "$f" derive-ex-tests/tests/; done
if [ $R1 -eq 0 ] && [ $R2 -ne 0 ] && [ $R3 -eq 0 ]; then echo "VERIFIED $MD"; else echo "NOT-VERIFIED $MD ($R1 $R2 $R3)"; fi
