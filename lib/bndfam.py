"""Bounds family (C03, C04): descriptors, concretiser, projection of where-clauses into tags.

Descriptor (shared with spec/DxBounds.tla):
  P = {kind, t, D, params:[{k}], decl:int, tval:bool,
       tb: LS, variants:[{shape, dmark, vb: LS, fields:[{ty: TypeExpr, b: LS, cmp, dbg, dval}]}]}
  LS = {"h": {attr: BoundOpt for the 7 helper attributes}, "this": BoundOpt, "common": BoundOpt}
"""
import re, copy, itertools, json
import dxlib as dx
import cmpfam as cf

HELPERS = ["ord", "partial_ord", "eq", "partial_eq", "hash", "debug", "default"]
CMP_TRAITS = cf.TRAITS
BINOPS = ["Add", "BitAnd", "BitOr", "BitXor", "Div", "Mul", "Rem", "Shl", "Shr", "Sub"]
UNOPS = ["Neg", "Not"]


def trait_path(t):
    if t in cf.TRAIT_PATH:
        return cf.TRAIT_PATH[t]
    if t in BINOPS or t in UNOPS or t.endswith("Assign") or t in ("Deref", "DerefMut"):
        return "::core::ops::" + t
    return {"Copy": "::core::marker::Copy", "Clone": "::core::clone::Clone", "Debug": "::core::fmt::Debug",
            "Default": "::core::default::Default"}.get(t, "::unknown::" + t)


def noh():
    return {a: "absent" for a in HELPERS}


def LS(h=None, this="absent", common="absent"):
    d = noh()
    d.update(h or {})
    return {"h": d, "this": this, "common": common}


def fld(ty=None, b=None, cmp=None, dbg="none", dval=False):
    return {"ty": ty or {"k": "param", "i": 1}, "b": b or LS(), "cmp": cmp or cf.plain(), "dbg": dbg, "dval": dval}


def mkP(kind, t, variants, D=None, params=None, decl=0, tval=False, tb=None):
    vs = []
    for v in variants:
        v = dict(v)
        v.setdefault("shape", "tuple")
        v.setdefault("dmark", False)
        v.setdefault("vb", LS())
        vs.append(v)
    return {"kind": kind, "t": t, "D": D or [t], "params": params or [{"k": "type"}], "decl": decl, "tval": tval,
            "tb": tb or LS(), "variants": vs}


# ------------------------------------------------------------------------------------------------
# rendering
# ------------------------------------------------------------------------------------------------
def pname(P, i):
    k = P["params"][i - 1]["k"]
    return {"type": "T%d", "const": "N%d", "lifetime": "'l%d"}[k] % i


def first_type_param(P):
    for i, p in enumerate(P["params"]):
        if p["k"] == "type":
            return pname(P, i + 1)
    return None


CONC = ["u8", "String", "bool", "u32"]


def ty_src(P, ty):
    k = ty["k"]
    if k == "param":
        return ("r#" if P.get("raw_use") and P["params"][ty["i"] - 1]["k"] != "lifetime" else "") + pname(P, ty["i"])
    if k == "conc":
        return "i8" if P.get("conc") == "int" else CONC[ty["n"] % len(CONC)]
    if k == "abs":
        return "::core::primitive::i8" if P.get("conc") == "int" else "::std::string::String"
    if k == "app":
        return "%s<%s>" % (ty["c"], ", ".join(ty_src(P, a) for a in ty["args"]))
    if k == "ref":
        lt = ("'static " if ty["lt"] == 0 else pname(P, ty["lt"]) + " ")
        return "&%s%s" % (lt, ty_src(P, ty["of"]))
    if k == "tuple":
        return "(%s,)" % ", ".join(ty_src(P, a) for a in ty["args"])
    if k == "array":
        return "[%s; %s]" % (ty_src(P, ty["of"]), "3" if ty["len"] == 0 else pname(P, ty["len"]))
    if k == "fn":
        return "fn(%s) -> %s" % (", ".join(ty_src(P, a) for a in ty["args"]), ty_src(P, ty["ret"]))
    if k == "ptr":
        return "*const %s" % ty_src(P, ty["of"])
    if k == "cgen":
        return ("::dx_support::Cn<{ %s }>" if ty.get("braced") else "::dx_support::Cn<%s>") % pname(P, ty["len"])
    if k == "assoc":
        return "%s::Assoc" % pname(P, ty["i"])
    if k == "qassoc":
        return "<%s as ::dx_support::Tr>::Assoc" % ty_src(P, ty["of"])
    raise ValueError(k)


def lid(s):
    return s.replace(".", "_")


def pred_text(P, tp, marker):
    """the marker predicate of one level, in the spelling the item uses (they all mean: this level contributed)"""
    pf = P.get("pred_form")
    if pf == "hrtb":
        return "for<'a> &'a %s: %s" % (tp, marker)
    if pf == "paren":
        return "(%s): %s" % (tp, marker)
    if pf == "tuple":
        return "(%s, u8): %s" % (tp, marker)
    if pf == "path":
        return "%s: self::%s" % (tp, marker)
    if pf == "bound_args":
        return "::core::option::Option<%s>: %s<'static, u8>" % (tp, marker)
    return "%s: %s" % (tp, marker)


def type_entry_text(P, tp, l):
    """the explicit Type entry of one level, in the spelling the item uses"""
    if P.get("conc_ty"):
        return "Wc_%s" % l
    tf = P.get("ty_form")
    if tf == "binder_fn":
        return "for<'a> fn(&'a %s) -> W_%s<%s>" % (tp, l, tp)          # a type that STARTS with a binder is still a type entry
    if tf == "paren":
        return "(W_%s<%s>)" % (l, tp)
    if tf == "ref":
        return "&'static W_%s<%s>" % (l, tp)
    if tf == "qpath":
        return "<W_%s<%s> as ::dx_support::Idt>::Same" % (l, tp)
    if tf == "dyn":
        return "dyn ::core::ops::Fn(%s) -> W_%s<%s>" % (tp, l, tp)
    return "W_%s<%s>" % (l, tp)


def bound_src(P, b, level_id):
    """`bound(...)` text for BoundOpt b written at level level_id, or None when absent"""
    tp = first_type_param(P) or "u8"
    pred = pred_text(P, tp, "M_%s" % lid(level_id))
    if P.get("pred_form") == "trailing_comma" and b in ("P", "T", "ddP", "ddT"):
        # bound(P,) / bound(.., P,): a trailing comma inside the list
        ty0 = type_entry_text(P, tp, lid(level_id))
        return {"P": "bound(%s,)" % pred, "T": "bound(%s,)" % ty0, "ddP": "bound(.., %s,)" % pred, "ddT": "bound(.., %s,)" % ty0}[b]
    # (conc_ty: the explicit Type entries name no generic parameter at all - they count all the same)
    ty = type_entry_text(P, tp, lid(level_id))
    return {"absent": None, "empty": "bound()", "P": "bound(%s)" % pred, "dd": "bound(..)", "Pdd": "bound(%s, ..)" % pred,
            "T": "bound(%s)" % ty, "Tdd": "bound(%s, ..)" % ty, "ddP": "bound(.., %s)" % pred, "ddT": "bound(.., %s)" % ty}[b]


def cmp_args(o, a):
    args = []
    if o["ign"]:
        args.append("ignore")
    if o["rev"]:
        args.append("reverse")
    if o["sel"] == "key":
        args.append("key = ::dx_support::key_of(%d, &$)" % cf.RANK[a])
    if o["sel"] == "by":
        args.append({"ord": "by = ::dx_support::by_ord", "partial_ord": "by = ::dx_support::by_pord", "eq": "by = ::dx_support::by_eq",
                     "partial_eq": "by = ::dx_support::by_eq", "hash": "by = ::dx_support::by_hash"}[a])
    return args


def scope_attrs(P, ls, sid, scope, extra=None):
    """attributes written at one scope (type: only helper attributes; the derive_ex arguments of the type
    go to the macro arguments).  extra: {"cmp": cfg, "dbg":.., "dval":.., "dmark":..} for fields / variants."""
    extra = extra or {}
    out = []
    t = P["t"]
    for a in HELPERS:
        args = []
        if a in cf.ATTRS and "cmp" in extra:
            args += cmp_args(extra["cmp"][a], a)
        if a == "debug" and extra.get("dbg", "none") != "none":
            args.append(extra["dbg"])
        b = bound_src(P, ls["h"][a], sid + ".h." + a)
        if a == "default":
            has_val = extra.get("dval", False) or (scope == "type" and P["tval"])
            if has_val:
                args.append("::dx_support::make()")
            elif b is not None:
                args.append("_")
            if b is not None:
                args.append(b)
            if args:
                out.append("#[default(%s)]" % ", ".join(args))
            elif extra.get("dmark", False):
                out.append("#[default]")
            continue
        if b is not None:
            args.append(b)
        if args:
            out.append("#[%s(%s)]" % (a, ", ".join(args)))
    if scope != "type":
        d = derive_args(P, ls, sid, [t])
        if d:
            out.append("#[derive_ex(%s)]" % d)
    return " ".join(out)


def derive_args(P, ls, sid, traits, always=False):
    """arguments of a derive_ex attribute for one scope: Trait(bound(..)), bound(..)"""
    t = P["t"]
    this = bound_src(P, ls["this"], sid + ".this")
    common = bound_src(P, ls["common"], sid + ".common")
    if not always and this is None and common is None:
        return ""
    parts = []
    for tr in traits:
        parts.append("%s(%s)" % (tr, this) if (tr == t and this is not None) else tr)
    if common is not None:
        parts.append(common)
    return ", ".join(parts)


def generics_src(P):
    if not P["params"]:
        return ""
    ps = []
    for i, p in enumerate(P["params"]):
        n = pname(P, i + 1)
        if p["k"] == "lifetime":
            ps.append(n)
    for i, p in enumerate(P["params"]):
        n = pname(P, i + 1)
        if p["k"] == "type":
            ps.append(n + (": " + p["inline"] if p.get("inline") else ""))
    for i, p in enumerate(P["params"]):
        n = pname(P, i + 1)
        if p["k"] == "const":
            ps.append("const %s: usize" % n)
    return "<%s>" % ", ".join(ps)


def decl_where(P):
    tp = first_type_param(P) or "u8"
    if not P["decl"]:
        return ""
    return "where " + ", ".join("%s: Dcl%d" % (tp, k) for k in range(1, P["decl"] + 1))


def item_parts(P, name="X"):
    """(macro arguments, item source without the derive_ex attribute of the type)"""
    attr = derive_args(P, P["tb"], "t", P["D"], always=True)
    head = scope_attrs(P, P["tb"], "t", "type")
    g, w = generics_src(P), decl_where(P)

    def fields_src(vi, v):
        fs = []
        for j, f in enumerate(v["fields"]):
            at = scope_attrs(P, f["b"], "f%d.%d" % (vi + 1, j + 1), "field", {"cmp": f["cmp"], "dbg": f["dbg"], "dval": f["dval"]})
            if v["shape"] == "named":
                fs.append("%s g%d: %s" % (at, j, ty_src(P, f["ty"])))
            else:
                fs.append("%s %s" % (at, ty_src(P, f["ty"])))
        if v["shape"] == "named":
            return "{ " + ", ".join(fs) + " }"
        if v["shape"] == "tuple":
            return "( " + ", ".join(fs) + " )"
        return ""
    if P["kind"] == "struct":
        v = P["variants"][0]
        if v["shape"] == "named":
            item = "%s struct %s%s %s %s" % (head, name, g, w, fields_src(0, v))
        else:
            item = "%s struct %s%s %s %s;" % (head, name, g, fields_src(0, v), w)
    else:
        vs = []
        for vi, v in enumerate(P["variants"]):
            at = scope_attrs(P, v["vb"], "v%d" % (vi + 1), "variant", {"dmark": v["dmark"]})
            vs.append("%s B%d %s" % (at, vi, fields_src(vi, v)))
        item = "%s enum %s%s %s { %s }" % (head, name, g, w, ", ".join(vs))
    return attr, item


def requests_for(P, rid, entries=("attr", "derive")):
    attr, item = item_parts(P)
    reqs = []
    # a SECOND list on the type, for another trait, with a shared bound of its own: it is that list's business only
    ol = P.get("other_list")
    if ol:
        tp = first_type_param(P) or "u8"
        other = "%s, bound(%s: M_other%s)" % (ol["t"], tp, ", .." if ol.get("dd") else "")
        first, second = (other, attr) if ol["pos"] == "before" else (attr, other)
        for e in entries:
            if e == "attr":
                reqs.append({"k": "expand", "id": rid, "entry": "attr", "attr": first, "item": "#[derive_ex(%s)] %s" % (second, item)})
            else:
                reqs.append({"k": "expand", "id": rid, "entry": "derive", "attr": "", "item": "#[derive_ex(%s)] #[derive_ex(%s)] %s" % (first, second, item)})
        return reqs
    for e in entries:
        if e == "attr":
            reqs.append({"k": "expand", "id": rid, "entry": "attr", "attr": attr, "item": item})
        else:
            reqs.append({"k": "expand", "id": rid, "entry": "derive", "attr": "", "item": "#[derive_ex(%s)] %s" % (attr, item)})
    return reqs


# ------------------------------------------------------------------------------------------------
# forms and tag <-> atom mapping
# ------------------------------------------------------------------------------------------------
def impl_forms(t):
    """list of impl variants of trait t, in the order the expander emits them"""
    if t in BINOPS:
        return [("bin", l, r) for l in (False, True) for r in (False, True)]
    if t.endswith("Assign") and t != "Assign":
        return [("assign", r) for r in (False, True)]
    if t in UNOPS:
        return [("un", l) for l in (False, True)]
    return [("plain",)]


def form_atom(ty, t, form):
    tp = trait_path(t)
    if form[0] == "plain":
        return "%s: %s" % (ty, tp)
    if form[0] == "bin":
        l, r = form[1], form[2]
        if l and r:
            return "for<'a> &'a %s: %s<&'a %s, Output = %s>" % (ty, tp, ty, ty)
        if l:
            return "for<'a> &'a %s: %s<%s, Output = %s>" % (ty, tp, ty, ty)
        if r:
            return "for<'a> %s: %s<&'a %s, Output = %s>" % (ty, tp, ty, ty)
        return "%s: %s<%s, Output = %s>" % (ty, tp, ty, ty)
    if form[0] == "assign":
        return ("for<'a> %s: %s<&'a %s>" if form[1] else "%s: %s<%s>") % (ty, tp, ty)
    if form[0] == "un":
        return ("for<'a> &'a %s: %s<Output = %s>" if form[1] else "%s: %s<Output = %s>") % (ty, tp, ty)


class AtomMap:
    """normalises expected atom texts through the same tokeniser as the observer and maps atoms back to tags"""

    def __init__(self):
        self.cache = {}

    def norm_many(self, texts):
        todo = sorted(set(t for t in texts if t not in self.cache))
        if not todo:
            return
        rs = dx.expand([{"k": "atoms", "id": i, "src": "where " + t} for i, t in enumerate(todo)])
        for t, r in zip(todo, rs):
            if "atoms" not in r or len(r["atoms"]) != 1:
                raise dx.ToolError("cannot normalise atom %r: %s" % (t, r))
            self.cache[t] = r["atoms"][0]

    def norm(self, t):
        if t not in self.cache:
            self.norm_many([t])
        return self.cache[t]


def tag_texts(P, form):
    """all (tag, atom text) pairs that could occur in the where-clause of this impl form of P"""
    t = P["t"]
    tp = first_type_param(P) or "u8"
    out = []
    for k in range(1, P["decl"] + 1):
        out.append(("decl@%d" % k, "%s: Dcl%d" % (tp, k)))
    for i, p in enumerate(P["params"]):
        if p.get("inline"):
            pass    # inline bounds stay in the impl generics, not in the where clause

    def scope(ls, sid):
        ids = [sid + ".h." + a for a in HELPERS] + [sid + ".this", sid + ".common"]
        for x in ids:
            out.append(("pred@" + x, pred_text(P, tp, "M_%s" % lid(x))))
            out.append(("ty@" + x, form_atom(type_entry_text(P, tp, lid(x)), t, form)))
    scope(P["tb"], "t")
    for vi, v in enumerate(P["variants"]):
        if P["kind"] == "enum":
            scope(v["vb"], "v%d" % (vi + 1))
        for j, f in enumerate(v["fields"]):
            scope(f["b"], "f%d.%d" % (vi + 1, j + 1))
            out.append(("field@%d.%d" % (vi + 1, j + 1), form_atom(ty_src(P, f["ty"]), t, form)))
    return out


def observe_where(Ps, amap, entries=("attr", "derive")):
    """expand every P through the given entries; returns list of events (one per P x entry)"""
    reqs, meta = [], []
    for pi, P in enumerate(Ps):
        for r in requests_for(P, len(reqs), entries):
            r["id"] = len(reqs)
            reqs.append(r)
            meta.append((pi, r["entry"]))
    resps = dx.expand(reqs)
    # normalise every expected atom text once
    texts = set()
    per_form = {}
    for pi, P in enumerate(Ps):
        for form in impl_forms(P["t"]):
            tt = tag_texts(P, form)
            per_form[(pi, form)] = tt
            texts.update(x for _, x in tt)
    amap.norm_many(texts)
    events = []
    for (pi, entry), r in zip(meta, resps):
        P = Ps[pi]
        tpath = trait_path(P["t"])
        impls, nerr = [], 0
        if r.get("class") in ("panic", "unlexable", "unparsable"):
            nerr = -1
        else:
            its = [i for i in r["items"] if i["kind"] == "impl" and i["trait"].split("::")[-1] == P["t"]]
            nerr = sum(1 for i in r["items"] if i["kind"] == "compile_error")
            forms = impl_forms(P["t"])
            for k, it in enumerate(its):
                form = forms[k] if k < len(forms) else forms[-1]
                rev = {}
                for tag, text in per_form[(pi, form)]:
                    rev.setdefault(amap.cache[text], []).append(tag)
                tags = []
                for a in it["where"]:
                    # the name of the bound lifetime of a higher-ranked bound is immaterial (alpha-equivalence)
                    hm = re.match(r"^for < ('[A-Za-z_][A-Za-z0-9_]*) >", a)
                    if hm and hm.group(1) != "'a":
                        a = re.sub(re.escape(hm.group(1)) + r"(?![A-Za-z0-9_])", "'a", a)
                    # an atom text may stand for several tags only if two levels render identically - they never do,
                    # except a field type that coincides with the type parameter of a marker predicate (never)
                    ts = rev.get(a, ["unknown:" + a])
                    tags += ts if len(ts) == 1 else ["ambiguous:" + a]
                impls.append(sorted(tags))
        ev = {"ev": "where", "P": P, "entry": entry, "impls": impls, "nerr": nerr, "strict": bool(P.get("strict", False))}
        # declared INLINE bounds that mention `Self`: in every generated impl (also those for `&X<..>`) they must read as written,
        # with `Self` = the item type
        if any("Self" in (p.get("inline") or "") for p in P["params"]) and r.get("class") not in ("panic", "unlexable", "unparsable"):
            gs = generics_src(P)
            args = ", ".join([pname(P, i + 1) for i, p in enumerate(P["params"]) if p["k"] == "lifetime"] +
                             [pname(P, i + 1) for i, p in enumerate(P["params"]) if p["k"] == "type"] +
                             [pname(P, i + 1) for i, p in enumerate(P["params"]) if p["k"] == "const"])
            want = re.sub(r"\s+", "", gs[1:-1].replace("Self", "X<%s>" % args))
            its = [i for i in r["items"] if i["kind"] == "impl" and i["trait"].split("::")[-1] == P["t"]]
            me = re.sub(r"\s+", "", "X<%s>" % args)

            def seen(it):
                g = re.sub(r"\s+", "", it.get("generics") or "").rstrip(",")
                # in an impl for the item type itself `Self` may stay as written; in an impl for `&X<..>` it must have been spelled out
                return g.replace("Self", me) if re.sub(r"\s+", "", it.get("self_ty") or "") == me else g
            ev["generics_ok"] = [seen(it) == want for it in its]
        events.append(ev)
    return events, reqs
