"""Life-cycle family (spec/DxLife.tla, MC_Life.tla, Trace_Life.tla): one derived type, a pool of variables, a history of calls.
The concretiser writes the item and a straight-line driver for ONE behaviour printed by TLC; it knows nothing about what the
calls should return - the driver logs what happened and Trace_Life judges it."""
import json
import cmpfam as cf

W = "::dx_support::W"
OPS = ["Add", "Sub", "Neg", "AddAssign", "SubAssign"]
SYM = {"add": "+", "sub": "-"}


def wname(guise):
    """the field type: W, or its Copy twin Wc (then Copy is derived next to Clone: the derived Clone must still call the field's clone)"""
    return "::dx_support::Wc" if "copy" in guise else "::dx_support::W"


def derive_list(L, guise=()):
    ts = (["Copy"] if "copy" in guise else []) + ["Clone", "Debug"] + list(L["D"])
    if L["dvar"]:
        ts.append("Default")
    if L["ops"]:
        ts += OPS
    if L["deref"]:
        ts += ["Deref", "DerefMut"]
    return ts


def generic_slot(L):
    """(variant index, field index) of the first field without helper attributes: its type can be a type parameter"""
    for vi, v in enumerate(L["variants"]):
        for j, f in enumerate(v["fields"]):
            if all(o == cf.NOOPT for o in f["cmp"].values()):
                return vi, j
    return None


RAW_NAMES = ["r#type", "r#fn", "r#match", "r#loop"]


TYPE_NAMES = ["Lf", "Lf", "Clone", "Default", "Ordering", "Eq", "Item", "lf_lower", "Copy_", "Debug", "Hash", "Add", "Option_"]


def tname(L):
    return L.get("tname", "Lf")


def with_names(L, guise=(), k=0):
    """the descriptor with the field names the judge must see in Debug output (raw identifiers print without `r#`) and their source spelling"""
    L = json.loads(json.dumps(L))
    for v in L["variants"]:
        for j, f in enumerate(v["fields"]):
            f["src"] = RAW_NAMES[j] if "raw_fields" in guise else f.get("name", "f%d" % j)
            f["name"] = f["src"].replace("r#", "")
    if "type_name" in guise:
        # the type called like something else (a struct prints its own name: the descriptor is told)
        L["tname"] = TYPE_NAMES[k % len(TYPE_NAMES)]
        if L["kind"] == "struct":
            L["variants"][0]["name"] = L["tname"]
    return L


def fsrc(L, vi, j):
    return L["variants"][vi - 1]["fields"][j].get("src", "f%d" % j)


GUISES = ["copy", "copy", "type_name", "item_attrs", "marker_spelled_ty", "paren_ty", "alias_ty", "proj_ty", "empty_where", "raw_fields", "foreign_attrs", "macro_ty", "trailing_commas", "param_default", "vis"]


def item_src(L, entry, order=0, generic=False, guise=()):
    """the item as a user might write it.  `guise`: purely syntactic variations that mean the same (parenthesised / aliased / projected
    field types, an empty where-clause, raw field names, foreign attributes between the helper attributes, the item produced by
    macro_rules! with the field type passed as a `ty` fragment, trailing commas in attribute lists, a defaulted parameter, visibility)"""
    ts = derive_list(L, guise)
    slot = generic_slot(L) if generic else None
    gp = ("<G = %s>" % wname(guise) if "param_default" in guise else "<G>") if slot else ""
    if order == 1:
        ts = list(reversed(ts))
    tc = ", " if "trailing_commas" in guise else ""
    if entry == "attr":
        head = "#[::derive_ex::derive_ex(%s%s)]" % (", ".join(ts), tc)
    elif entry == "derive":
        head = "#[derive(::derive_ex::Ex)] #[derive_ex(%s%s)]" % (", ".join(ts), tc)
    elif entry == "path2":
        # two stacked, path-spelled attribute-macro invocations: the comparison traits (their helper attributes are consumed by that
        # expansion) and everything else
        cmpts = [t for t in ts if t in ("Ord", "PartialOrd", "Eq", "PartialEq", "Hash")]
        rest = [t for t in ts if t not in cmpts]
        lists = [l for l in (cmpts, rest) if l]
        head = " ".join("#[::derive_ex::derive_ex(%s%s)]" % (", ".join(l), tc) for l in lists)
    else:   # split lists through the derive entry
        k = max(1, len(ts) // 2)
        mid = " #[allow(dead_code)] " if "foreign_attrs" in guise else " "
        head = "#[derive(::derive_ex::Ex)] #[derive_ex(%s%s)]%s#[derive_ex(%s)]" % (", ".join(ts[:k]), tc, mid, ", ".join(ts[k:]))
    if "foreign_attrs" in guise:
        head = "#[doc = \"item\"] " + head + " #[allow(dead_code)]"
    if "item_attrs" in guise:
        # unrelated attributes of the item: layout, exhaustiveness, conditional attributes, lint levels - before and after the request
        head = "#[cfg_attr(all(), allow(dead_code))] #[non_exhaustive] " + head + " #[repr(C)] #[allow(non_camel_case_types)] #[must_use]"
    W = wname(guise)
    wty = W
    if "macro_ty" in guise and any(o["sel"] == "key" for v in L["variants"] for f in v["fields"] for o in f["cmp"].values()):
        guise = [g for g in guise if g != "macro_ty"]       # (`$` of a key expression cannot be written inside a macro_rules! body)
    if "macro_ty" in guise:
        wty = "$t"
    elif "paren_ty" in guise:
        wty = "(%s)" % W
    elif "alias_ty" in guise:
        wty = "Wa"
    elif "marker_spelled_ty" in guise:
        # the field type itself, spelled so that a marker type occurs INSIDE it (a type argument of the projection's trait)
        wty = "<%s as ::dx_support::IdtP<::core::marker::PhantomData<(u8, ::core::marker::PhantomPinned)>>>::Same" % W
    elif "proj_ty" in guise:
        wty = "<%s as ::dx_support::Idt>::Same" % W
    vis = "pub(crate) " if "vis" in guise else "pub "

    def fields(v, vi=0):
        fs = []
        for j, f in enumerate(v["fields"]):
            f = dict(f, kty="eq", ty="wc" if "copy" in guise else "w")
            a = cf.attrs_src(f, L["mode"])
            if "trailing_commas" in guise:
                a = a.replace(")]", ", )]")
            if "foreign_attrs" in guise and a:
                parts = a.split(" #[")
                a = "#[doc = \"f\"] " + " #[allow(unused)] #[".join(parts) + " #[cfg_attr(all(), allow(dead_code))]"
            nm = f.get("src", "f%d" % j)
            fs.append("%s %s%s" % (a, ("%s%s: " % (vis, nm)) if v["shape"] == "named" else vis if L["kind"] == "struct" else "", "G" if slot == (vi, j) else wty))
        if L["kind"] == "enum":
            fs = [x.replace(vis, "") for x in fs]
        if v["shape"] == "named":
            return " { " + ", ".join(fs) + " }"
        if v["shape"] == "tuple":
            return "(" + ", ".join(fs) + ")"
        return ""
    ew = "empty_where" in guise
    if L["kind"] == "struct":
        v = L["variants"][0]
        if v["shape"] == "named":
            item = "%s pub struct %s%s%s%s" % (head, tname(L), gp, " where" if ew else "", fields(v))
        else:
            item = "%s pub struct %s%s%s%s;" % (head, tname(L), gp, fields(v), " where" if ew else "")
    else:
        vs = []
        for i, v in enumerate(L["variants"]):
            fa = "#[doc = \"v\"] " if "foreign_attrs" in guise else ""
            vs.append("%s%s%s%s" % (fa, "#[default] " if L["dvar"] == i + 1 else "", v["name"], fields(v, i)))
        item = "%s pub enum %s%s%s { %s }" % (head, tname(L), gp, " where" if ew else "", ", ".join(vs))
    pre = "type Wa = %s; " % W if "alias_ty" in guise else ""
    if "macro_ty" in guise:
        return "%smacro_rules! mk_lf { ($t:ty) => { %s } } mk_lf!(%s);" % (pre, item, W)
    return pre + item


def path(L, vi):
    return tname(L) if L["kind"] == "struct" else "%s::%s" % (tname(L), L["variants"][vi - 1]["name"])


def ctor(L, vi, args):
    v = L["variants"][vi - 1]
    if v["shape"] == "named":
        return "%s { %s }" % (path(L, vi), ", ".join("%s: %s" % (fsrc(L, vi, j), a) for j, a in enumerate(args)))
    if v["shape"] == "tuple":
        return "%s(%s)" % (path(L, vi), ", ".join(args))
    return path(L, vi)


def pat(L, vi, names):
    v = L["variants"][vi - 1]
    if v["shape"] == "named":
        return "%s { %s }" % (path(L, vi), ", ".join("%s: %s" % (fsrc(L, vi, j), n) for j, n in enumerate(names)))
    if v["shape"] == "tuple":
        return "%s(%s)" % (path(L, vi), ", ".join(names))
    return path(L, vi)


def helpers(L, generic=False, W=W):
    """user-side helpers written by hand (no derived code): projection of a value and a copy that calls nothing on W"""
    arms_p, arms_d = [], []
    for vi, v in enumerate(L["variants"], 1):
        n = len(v["fields"])
        names = ["x%d" % j for j in range(n)]
        fs = ",".join("{{\\\"val\\\":{},\\\"tag\\\":{}}}" for _ in range(n))
        fargs = "".join(", %s.0, %s.1" % (x, x) for x in names)
        arms_p.append("            %s => format!(\"{{\\\"v\\\":%d,\\\"f\\\":[%s]}}\"%s)," % (pat(L, vi, names), vi, fs, fargs))
        arms_d.append("            %s => %s," % (pat(L, vi, names), ctor(L, vi, ["%s(%s.0, %s.1)" % (W, x, x) for x in names])))
    alias = "    type LfT = %s%s;\n" % (tname(L), "<%s>" % W if generic and generic_slot(L) else "")
    return (alias + "    fn proj(x: &LfT) -> String {\n        match x {\n%s\n        }\n    }\n"
            "    fn dup(x: &LfT) -> LfT {\n        match x {\n%s\n        }\n    }\n"
            "    fn code(o: ::core::option::Option<::core::cmp::Ordering>) -> i32 { match o { ::core::option::Option::None => 2, ::core::option::Option::Some(::core::cmp::Ordering::Less) => -1, "
            "::core::option::Option::Some(::core::cmp::Ordering::Equal) => 0, ::core::option::Option::Some(::core::cmp::Ordering::Greater) => 1 } }\n"
            % ("\n".join(arms_p), "\n".join(arms_d)))


def life_module(idx, L, hist, entry, order=0, variables=("a", "b", "c"), generic=False, guise=()):
    W = wname(guise)
    vs = list(variables)
    n1 = len(L["variants"][0]["fields"])
    first = ctor(L, 1, ["%s(0, %d)" % (W, j) for j in range(n1)])
    pool = "format!(\"{{%s}}\", %s)" % (",".join("\\\"%s\\\":{}" % v for v in vs), ", ".join("proj(&p%s)" % v for v in vs))
    lines = ["pub mod m%d {" % idx, "    " + item_src(L, entry, order, generic, guise), helpers(L, generic, wname(guise)), "    pub fn run() -> String {",
             "        let mut out = String::new();"]
    for v in vs:
        lines.append("        let mut p%s: LfT = %s;" % (v, first))
    lines.append("        out.push_str(&format!(\"{{\\\"id\\\":%d,\\\"k\\\":0,\\\"post\\\":{}}}\\n\", %s));" % (idx, pool))
    for k, x in enumerate(hist, 1):
        act, d, a, b = x["act"], x["d"], x["a"], x["b"]
        res, opsok, pre, call = "0", "true", "", ""
        if act == "set":
            call = "p%s = %s;" % (d, ctor(L, x["vi"], ["%s(%d, %d)" % (W, v, j) for j, v in enumerate(x["vals"])]))
        elif act == "default":
            call = "p%s = <LfT as ::core::default::Default>::default();" % d
        elif act == "clone":
            call = "p%s = ::core::clone::Clone::clone(&p%s);" % (d, a)
        elif act == "clone_from":
            call = "::core::clone::Clone::clone_from(&mut p%s, &p%s);" % (d, a)
        elif act == "bin":
            pre = "let l = dup(&p%s); let r = dup(&p%s); let l0 = proj(&l); let r0 = proj(&r);" % (a, b)
            le = "&l" if x["lr"] else "l"
            re_ = "&r" if x["rr"] else "r"
            call = "let res = %s %s %s;" % (le, SYM[x["op"]], re_)
            chk = []
            if x["lr"]:
                chk.append("proj(&l) == l0")
            if x["rr"]:
                chk.append("proj(&r) == r0")
            opsok = " && ".join(chk) or "true"
        elif act == "assign":
            pre = "let r = dup(&p%s); let r0 = proj(&r);" % a
            call = "p%s %s= %s;" % (d, SYM[x["op"]], "&r" if x["rr"] else "r")
            if x["rr"]:
                opsok = "proj(&r) == r0"
        elif act == "un":
            pre = "let l = dup(&p%s); let l0 = proj(&l);" % a
            call = "let res = -%s;" % ("&l" if x["lr"] else "l")
            if x["lr"]:
                opsok = "proj(&l) == l0"
        elif act == "deref_write":
            call = "*::core::ops::DerefMut::deref_mut(&mut p%s) = %s(%d, 7);" % (d, W, x["vals"][0])
        elif act == "deref_read":
            call = "let res = format!(\"\\\"{:?}\\\"\", ::core::ops::Deref::deref(&p%s));" % a
            res = "res"
        elif act == "eq":
            call = "let res = (p%s == p%s) as i32;" % (a, b)
            res = "res"
        elif act == "pcmp":
            call = "let res = code(::core::cmp::PartialOrd::partial_cmp(&p%s, &p%s));" % (a, b)
            res = "res"
        elif act == "cmp":
            call = "let res = code(::core::option::Option::Some(::core::cmp::Ord::cmp(&p%s, &p%s)));" % (a, b)
            res = "res"
        elif act == "hash":
            call = "let res = format!(\"{:?}\", ::dx_support::feed_of(&p%s));" % a
            res = "res"
        elif act == "debug_alt":
            call = "let res = format!(\"\\\"{}\\\"\", ::dx_support::json_str(&format!(\"{:#?}\", p%s)));" % a
            res = "res"
        elif act == "debug":
            call = "let res = format!(\"\\\"{}\\\"\", ::dx_support::json_str(&format!(\"{:?}\", p%s)));" % a
            res = "res"
        else:
            raise ValueError(act)
        lines.append("        { %s ::dx_support::take_log(); %s let lg = ::dx_support::take_log(); let ok: bool = %s;%s" %
                     (pre, call, opsok, (" p%s = res;" % d) if act in ("bin", "un") else ""))
        lines.append("          out.push_str(&format!(\"{{\\\"id\\\":%d,\\\"k\\\":%d,\\\"result\\\":{},\\\"log\\\":{},\\\"operands_ok\\\":{},\\\"post\\\":{}}}\\n\", %s, ::dx_support::json_strs(&lg), ok, %s)); }" %
                     (idx, k, res, pool))
    lines += ["        out", "    }", "}"]
    return "\n".join(lines)
