"""Checks of the comparison family: C01 C02 C05 C06 C17."""
import copy, json, os, random, itertools, re
import dxlib as dx
import cmpfam as cf


def mc_cfgs(ck, tier, dsets=None):
    """Model-check the comparison pipeline and return the configurations TLC emitted."""
    dsets = dsets or os.environ.get("DX_DSETS") or ("quick" if tier == "quick" else "all")
    st, outp = dx.tlc_run("MC_Cmp", "MC_Cmp_%s.cfg" % dsets, "mc_cmp_" + dsets, timeout=7200)
    text = open(outp).read()
    if not st["ok"]:
        ck.violation({"kind": "model", "invariants": st["violated"], "errors": st["errors"]},
                     {"what": "TLC found the design itself in violation (MC_Cmp)", "tlc_output": outp,
                      "tail": text[-3000:]})
        return [], st
    cfgs = dx.parse_prints(text, "CFG")
    ck.add_model(st)
    ck.notes["model"] = {"module": "MC_Cmp", "dsets": dsets, "states": st.get("distinct"), "cached": st.get("cached"),
                         "tlc_wall_s": st.get("wall_s"), "configs": len(cfgs),
                         "invariants": "TypeOK Progress MechIsDoc Isolation CoherentInv DocErrorCases"}
    # vacuity guards: both sides of every guard must be populated
    acc = sum(1 for c in cfgs for o in c["out"] if o["o"] != "err")
    rej = sum(1 for c in cfgs for o in c["out"] if o["o"] == "err")
    skip = sum(1 for c in cfgs for o in c["out"] if o["o"] == "skip")
    ck.notes["model"]["outcomes"] = {"accepted": acc, "rejected": rej, "skipped": skip}
    if not cfgs or acc == 0 or rej == 0 or skip == 0:
        raise dx.ToolError("vacuous model run: %s" % ck.notes["model"])
    return cfgs, st


def sig_cfg(c):
    """compact, stable signature of a field configuration"""
    if isinstance(c, str):
        return c
    out = []
    for a in cf.ATTRS:
        o = c[a]
        s = ("i" if o["ign"] else "") + ("r" if o["rev"] else "") + {"none": "", "key": "k", "by": "b"}[o["sel"]]
        if s:
            out.append("%s:%s" % (a, s))
    return ",".join(out) or "-"


# ------------------------------------------------------------------------------------------------
# C05: acceptance / rejection per trait, misplaced arguments
# ------------------------------------------------------------------------------------------------
def c05(tier):
    ck = dx.Check("C05", tier)
    cfgs, st = mc_cfgs(ck, tier)
    shapes = cf.shapes(tier)
    reqs, meta = [], []
    for c in cfgs:
        for tag, build in shapes:
            P = build(c["c"])
            for entry in ("attr", "derive"):
                src = cf.item_src(P, c["D"], "T", "distinct", entry)
                attr = cf.dlist(c["D"]) if entry == "attr" else ""
                if entry == "attr":
                    # the attribute macro receives its arguments separately
                    item = src[src.index("]") + 1:]
                else:
                    item = src
                reqs.append({"k": "expand", "id": len(reqs), "entry": entry, "attr": attr, "item": item})
                meta.append((P, c["D"], entry, tag, c["c"]))
    # misplaced arguments on the type and on a variant: 4 arguments x 5 attributes
    for a in cf.ATTRS:
        for arg in ("ign", "rev", "key", "by"):
            for target in ("type", "variant", "field"):
                for D in (["Ord", "PartialOrd", "Eq", "PartialEq", "Hash"], ["PartialEq"], ["Hash"], ["PartialOrd", "PartialEq"]):
                    for kind in ("struct", "enum"):
                        if target == "variant" and kind == "struct":
                            continue
                        o = dict(cf.NOOPT)
                        if arg == "ign":
                            o["ign"] = True
                        elif arg == "rev":
                            o["rev"] = True
                        else:
                            o["sel"] = arg
                        if arg == "rev" and a not in ("ord", "partial_ord"):
                            continue
                        c = cf.plain()
                        if kind == "struct":
                            P = cf.mkP("struct", [{"shape": "named", "fields": [cf.field(dom=2)]}])
                        else:
                            P = cf.mkP("enum", [{"shape": "unit", "fields": []}, {"shape": "tuple", "fields": [cf.field(dom=2)]}])
                        if target == "type":
                            P["tcmp"][a] = o
                        elif target == "variant":
                            P["variants"][1]["vcmp"][a] = o
                        else:
                            P["variants"][-1]["fields"][0]["cmp"][a] = o
                        for entry in ("attr", "derive"):
                            src = cf.item_src(P, D, "T", "distinct", entry)
                            item = src[src.index("]") + 1:] if entry == "attr" else src
                            reqs.append({"k": "expand", "id": len(reqs), "entry": entry,
                                         "attr": cf.attr_args(P, D) if entry == "attr" else "", "item": item})
                            meta.append((P, D, entry, "misplaced_%s_%s" % (target, kind), P["variants"][-1]["fields"][0]["cmp"]))
    for (P, D, entry, tag, c) in random_items(random.Random(dx.seed() + 3), 20000 if tier == "quick" else 200000):
        for ent in ("attr", "derive"):
            src = cf.item_src(P, D, "T", "distinct", ent)
            item = src[src.index("]") + 1:] if ent == "attr" else src
            reqs.append({"k": "expand", "id": len(reqs), "entry": ent, "attr": cf.attr_args(P, D) if ent == "attr" else "", "item": item})
            meta.append((P, D, ent, "random", c))
    # the same decisions with explicit bound(...) arguments written next to everything else (they stop / continue bound
    # resolution and must not change what is accepted): per-trait, shared, and inside the helper attributes (first / last / `..`)
    base_n = len(reqs)
    grnd = random.Random(dx.seed() + 11)
    step = 9 if tier == "quick" else 2
    try:
        for gi, guise in enumerate(("this_empty", "shared_empty", "helper_first", "helper_last", "helper_dd")):
            cf.BOUND_GUISE = guise
            for k, c in enumerate(cfgs):
                if (k + gi) % step:
                    continue
                tag, build = shapes[(k // step) % len(shapes)]
                P = build(c["c"])
                entry = ("attr", "derive")[(k // step + gi) % 2]
                src = cf.item_src(P, c["D"], "T", "distinct", entry)
                reqs.append({"k": "expand", "id": len(reqs), "entry": entry, "attr": cf.dlist(c["D"]) if entry == "attr" else "",
                             "item": src[src.index("]") + 1:] if entry == "attr" else src})
                meta.append((P, c["D"], entry, tag + "+" + guise, c["c"]))
            for j in range(base_n):
                (P, D, entry, tag, c) = meta[j]
                if tag.startswith("misplaced") or (tag == "random" and j % 5 == gi):
                    src = cf.item_src(P, D, "T", "distinct", entry)
                    reqs.append({"k": "expand", "id": len(reqs), "entry": entry, "attr": cf.attr_args(P, D) if entry == "attr" else "",
                                 "item": src[src.index("]") + 1:] if entry == "attr" else src})
                    meta.append((P, D, entry, tag + "+" + guise, c))
    finally:
        cf.BOUND_GUISE = None
    dx.log("C05: %d expansions" % len(reqs))
    resps = dx.expand(reqs)
    events = []
    for r, (P, D, entry, tag, c) in zip(resps, meta):
        cl, info = cf.classes_of(r, D, entry)
        e = {"ev": "expand", "P": P, "D": D, "entry": entry, "classes": cl, "whole": info["whole"]}
        if entry == "attr" and r.get("items") and r["items"][0].get("attr_pos") is not None:
            # accepted use must also COMPILE: a helper attribute that belongs to derive_ex for this derived set must be gone
            # from the re-emitted item (a leftover `#[eq(..)]` is an unknown attribute to rustc)
            names = [re.match(r"#\s*\[\s*([A-Za-z_][A-Za-z0-9_]*)", a).group(1) for pos in r["items"][0]["attr_pos"] for a in pos if re.match(r"#\s*\[\s*([A-Za-z_][A-Za-z0-9_]*)", a)]
            e["leftover"] = sorted(set(nm for nm in names if nm in cf.ATTRS and any(RELEVANT(nm, t) for t in D)))
        events.append(e)
    n, bad, jst = dx.tlc_judge("Trace_Cmp", "Trace_Cmp.cfg", events, "c05", chunk=max(2000, -(-len(events) // 12)))
    ck.add_judge(n, jst)
    for i in bad:
        P, D, entry, tag, c = meta[i]
        wrong = sorted(t for t in D if events[i]["classes"][t] != "impl") if False else None
        sig = {"kind": "acceptance", "cfg": sig_cfg(c), "D": "+".join(D), "classes": events[i]["classes"], "shape": tag.split("_")[0] if tag.startswith("misplaced") else ("random" if tag == "random" else "field")}
        ck.violation(sig, {"what": "per-trait accept/reject of the real expander is not what DxCmp prescribes",
                           "request": reqs[i], "observed": events[i], "shape": tag,
                           "replay": "echo '<request>' | harness/target/release/dx-expand"})
    for i in (0, len(events) // 2, len(events) - 1):
        ck.sample({"request": reqs[i]["item"][:300], "D": meta[i][1], "entry": meta[i][2], "classes": events[i]["classes"]})
    ck.cov["evaluations"] = len(events)
    ck.cov["distinct_nontrivial"] = len(set(r.get("out_hash") for r in resps))
    ck.cov["rule"] = ("every (field configuration, derived set) TLC enumerated x %d shapes x 2 entry points, plus 4x5 misplaced arguments on type/variant/field; "
                      "distinct = distinct expansion outputs" % len(shapes))
    ck.cov["exhaustive"] = True
    ck.assumptions += ["per-trait class is read positionally from the expansion (item, then one impl-group or one compile_error per listed trait)",
                       "in-process expansion through verif_hooks equals the proc-macro entry points (8 wrapper lines)"]
    return ck.finish()


# ------------------------------------------------------------------------------------------------
# run-time observation of compiled programs
# ------------------------------------------------------------------------------------------------
def _line_to_mod(starts, line):
    import bisect
    i = bisect.bisect_right(starts, line) - 1
    return i


def compile_run_modules(mods, tag, batch=None):
    """mods: list of (idx, module_source).  Returns ({idx: parsed json line}, {idx: [diagnostic summaries]}).
    Modules that rustc rejects are located through diagnostic line numbers, removed and reported."""
    wd = os.path.join(dx.WORK, "run", "%s-%d" % (tag, os.getpid()))
    os.makedirs(wd, exist_ok=True)
    batch = batch or max(10, min(150, -(-len(mods) // dx.NCPU)))
    batches = [mods[i:i + batch] for i in range(0, len(mods), batch)]
    results, failed = {}, {}

    def do_batch(bi_ms):
        bi, ms = bi_ms
        ms = list(ms)
        res, bad = {}, {}
        for attempt in range(12):
            if not ms:
                break
            import runfam
            head = runfam.HEAD
            lines = head.count("\n")
            starts, ids = [], []
            body = head
            for idx, src in ms:
                starts.append(lines + 1)
                ids.append(idx)
                body += src + "\n"
                lines += src.count("\n") + 1
            body += "fn main() {\n    ::dx_support::quiet_panics();\n" + "".join("    print!(\"{}\", m%d::run());\n" % i for i in ids) + "}\n"
            ok, out, diags = dx.compile_and_run("b%d_%d" % (bi, attempt), body, wd)
            if ok:
                for l in out.splitlines():
                    if l.startswith("{"):
                        j = json.loads(l)
                        res[j["id"]] = j
                break
            # locate failing modules
            culprits = {}
            for d in diags:
                if d.get("level") != "error":
                    continue
                code = (d.get("code") or {}).get("code")
                for sp in d.get("spans", []):
                    if sp.get("is_primary"):
                        mi = _line_to_mod(starts, sp["line_start"])
                        if 0 <= mi < len(ids):
                            culprits.setdefault(ids[mi], []).append({"code": code, "msg": d.get("message", "")[:200]})
            if not culprits:
                raise dx.ToolError("batch failed without a locatable error: %s" % json.dumps(dx.diag_summary(diags))[:1500])
            for k, v in culprits.items():
                bad[k] = v
            ms = [(i, s) for (i, s) in ms if i not in culprits]
        else:
            raise dx.ToolError("batch did not converge")
        return res, bad

    for res, bad in dx.pmap(do_batch, list(enumerate(batches)), workers=dx.NCPU):
        results.update(res)
        failed.update(bad)
    import shutil
    shutil.rmtree(wd, ignore_errors=True)
    return results, failed


def observe_runtime(ck, items, mode, laws, tag, transform=None):
    """items: list of (P, D, entry, shapetag, c).  Expands in-process, keeps what the REAL code accepts,
    de-duplicates on impl tokens, compiles + runs representatives, returns (events, meta)."""
    reqs = []
    for (P, D, entry, stag, c) in items:
        src = cf.item_src(P, D, "T", mode, "attr")
        reqs.append({"k": "expand", "id": len(reqs), "entry": "attr", "attr": cf.attr_args(P, D), "item": src[src.index("]") + 1:]})
    resps = dx.expand(reqs)
    classes = {}
    n_rejected = 0
    for i, (r, it) in enumerate(zip(resps, items)):
        P, D, entry, stag, c = it
        cl, info = cf.classes_of(r, D, "attr")
        if all(cl[t] == "impl" for t in D) and info["whole"] == "ok":
            doms = json.dumps([[f["dom"] for f in v["fields"]] for v in P["variants"]])
            key = cf.impl_key(r) + doms + "+".join(D)
            classes.setdefault(key, []).append(i)
        else:
            n_rejected += 1
    reps = []
    for k, (key, members) in enumerate(sorted(classes.items())):
        # alternate the entry point of the representative so both are exercised at run time
        want = "attr" if k % 2 == 0 else "derive"
        rep = next((m for m in members if items[m][2] == want), members[0])
        reps.append((rep, members))
    mods = []
    vals_of = {}
    for rep, members in reps:
        P, D, entry, stag, c = items[rep]
        src, vals = cf.module_src(rep, P, D, mode, entry, laws=laws)
        mods.append((rep, src))
        vals_of[rep] = vals
    dx.log("%s: %d items, %d accepted by the real expander, %d distinct impl classes to compile" %
           (tag, len(items), len(items) - n_rejected, len(mods)))
    if transform:
        mods = transform(mods)
    results, failed = compile_run_modules(mods, tag)
    events, meta = [], []
    for rep, members in reps:
        for m in members:
            P, D, entry, stag, c = items[m]
            vals, _ = cf.values_of(P)
            if rep in results:
                j = results[rep]
                e = {"ev": "run", "P": P, "D": D, "mode": mode, "vals": vals, "rustc_failed": False,
                     "eq": j.get("eq", []), "ne": j.get("ne", []), "pcmp": j.get("pcmp", []), "ops": j.get("ops", []),
                     "cmp": j.get("cmp", []), "hash": j.get("hash", [])}
                events.append(e)
                meta.append({"item": items[m], "rep": rep, "kind": "run"})
                if laws:
                    events.append({"ev": "laws", "P": P, "D": D, "mode": mode,
                                   "laws": {k: j.get(k, -2) for k in ("eq_pord", "eq_ord", "pord_ord", "eq_hash", "eq_equiv", "ord_total")}})
                    meta.append({"item": items[m], "rep": rep, "kind": "laws"})
            else:
                e = {"ev": "run", "P": P, "D": D, "mode": mode, "vals": vals, "rustc_failed": True,
                     "eq": [], "ne": [], "pcmp": [], "ops": [], "cmp": [], "hash": []}
                events.append(e)
                meta.append({"item": items[m], "rep": rep, "kind": "rustc", "diags": failed.get(rep, [])[:4]})
    return events, meta, {"items": len(items), "accepted": len(items) - n_rejected, "classes": len(mods),
                          "rustc_failed_classes": len(failed)}


def items_from_cfgs(cfgs, tier, traits_filter=None, entries=("attr", "derive"), rotate=False, pv=False):
    items = []
    for ci, c in enumerate(cfgs):
        D = c["D"]
        if traits_filter and not traits_filter(D):
            continue
        # a helper attribute that is not derive_ex's for this derived set (TLC's `rec`) stays on the item:
        # under the attribute macro rustc then rejects the unknown attribute, so such programs can only
        # be compiled through #[derive(Ex)], which registers every helper name
        present = [a for a in cf.ATTRS if c["c"][a] != cf.NOOPT]
        ents = entries if all(a in c["rec"] for a in present) else tuple(e for e in entries if e == "derive")
        shp = cf.shapes(tier)
        if rotate:
            shp = [shp[ci % len(shp)]]          # quick tier: one shape per configuration, rotating
        if pv and set(D) <= {"PartialEq", "PartialOrd"}:
            pvs = cf.pv_shapes()
            shp = shp + ([pvs[ci % len(pvs)]] if rotate else pvs)
        for stag, build in shp:
            for entry in ents:
                items.append((build(c["c"]), D, entry, stag, c["c"]))
    return items


QUICK_DSETS = [["PartialEq"], ["Eq", "PartialEq"], ["PartialOrd", "PartialEq"], ["PartialOrd", "Eq", "PartialEq"], ["Ord", "PartialOrd", "Eq", "PartialEq"],
               ["PartialEq", "Hash"], ["Eq", "PartialEq", "Hash"], ["Ord", "PartialOrd", "Eq", "PartialEq", "Hash"], ["PartialOrd", "PartialEq", "Hash"],
               ["Ord"], ["PartialOrd"], ["Eq"], ["Hash"]]


def random_items(rnd, n, traits_filter=None):
    """seeded multi-field items: several attributed fields per struct / variant, explicit discriminants, random derived sets"""
    items = []
    while len(items) < n:
        P = cf.random_item(rnd)
        D = list(rnd.choice(QUICK_DSETS))
        if traits_filter and not traits_filter(D):
            continue
        rnd.shuffle(D)
        # all helper attributes present must belong to derive_ex for D, otherwise only #[derive(Ex)] can compile the program
        present = set(a for v in P["variants"] for f in v["fields"] for a in cf.ATTRS if f["cmp"][a] != cf.NOOPT)
        rec = set(a for a in cf.ATTRS if any(RELEVANT(a, t) for t in D))
        entry = rnd.choice(["attr", "derive"]) if present <= rec else "derive"
        items.append((P, D, entry, "random", cf.cfg_summary(P)))
    return items


def RELEVANT(a, t):
    # the documentation's table (DxBase.Relevant); used ONLY to decide through which entry point a program can be compiled
    return (a == "ord") or (a == "partial_ord" and t in ("PartialOrd", "PartialEq")) or (a == "eq" and t in ("Eq", "PartialEq", "Hash")) \
        or (a == "partial_eq" and t in ("Eq", "PartialEq")) or (a == "hash" and t == "Hash")


def report_run_bad(ck, pid, bad, events, meta, what):
    for i in bad:
        m = meta[i]
        P, D, entry, stag, c = m["item"]
        if m["kind"] == "rustc":
            codes = sorted(set(d.get("code") or "?" for d in m["diags"]))
            sig = {"kind": "rustc_rejects_accepted", "codes": ",".join(codes), "cfg": sig_cfg(c), "D": "+".join(D), "shape": stag}
        else:
            sig = {"kind": m["kind"], "cfg": sig_cfg(c), "D": "+".join(D), "shape": stag}
        ck.violation(sig, {"what": what, "descriptor": {"P": P, "D": D, "entry": entry, "shape": stag},
                           "source": cf.module_src(0, P, D, events[i].get("mode", "distinct"), entry, laws=(m["kind"] == "laws"))[0],
                           "observed": {k: v for k, v in events[i].items() if k not in ("P",)},
                           "diagnostics": m.get("diags")})


def c01(tier):
    ck = dx.Check("C01", tier)
    cfgs, st = mc_cfgs(ck, tier)
    cmp_only = lambda D: "Hash" not in D
    items = items_from_cfgs(cfgs, tier, cmp_only, pv=True, rotate=(tier == "quick"))
    items += random_items(random.Random(dx.seed()), 700 if tier == "quick" else 8000, cmp_only)
    events, meta, stats = observe_runtime(ck, items, "distinct", False, "c01")
    n, bad, jst = dx.tlc_judge("Trace_Cmp", "Trace_Cmp.cfg", events, "c01", chunk=max(300, -(-len(events) // 12)))
    ck.add_judge(n, jst)
    report_run_bad(ck, "C01", bad, events, meta, "==/partial_cmp/cmp tables of the compiled impls differ from DxCmp (or the accepted program does not compile)")
    ck.notes["runtime"] = stats
    for i in (0, len(events) // 3, len(events) - 1):
        if events:
            e = events[i]
            ck.sample({"item": cf.item_src(e["P"], e["D"], "T", "distinct", "attr")[:400], "values": len(e["vals"]),
                       "pcmp_row0": (e["pcmp"] or [[]])[0][:12], "eq_row0": (e["eq"] or [[]])[0][:12]})
    ck.cov["evaluations"] = sum(len(e["vals"]) ** 2 for e in events)
    ck.cov["distinct_nontrivial"] = stats["classes"]
    ck.cov["rule"] = "every accepted (field configuration, comparison-trait set) x shapes x entry points; all ordered value pairs; distinct = distinct generated impl token classes actually compiled and run"
    ck.cov["exhaustive"] = True
    import checks_life
    checks_life.life_stage(ck, tier, ["C01"], tag="life_c01")
    return ck.finish()


def c06(tier):
    ck = dx.Check("C06", tier)
    cfgs, st = mc_cfgs(ck, tier)
    items = items_from_cfgs(cfgs, tier, lambda D: "Hash" in D, rotate=(tier == "quick"))
    items += random_items(random.Random(dx.seed() + 1), 500 if tier == "quick" else 6000, lambda D: "Hash" in D)
    events, meta, stats = observe_runtime(ck, items, "distinct", False, "c06")
    n, bad, jst = dx.tlc_judge("Trace_Cmp", "Trace_Cmp.cfg", events, "c06", chunk=max(300, -(-len(events) // 12)))
    ck.add_judge(n, jst)
    report_run_bad(ck, "C06", bad, events, meta, "recorded Hasher feed differs from ItemHashFeed (or the accepted program does not compile)")
    ck.notes["runtime"] = stats
    kev, kmeta = key_forms_events(ck, tier)
    n2, bad2, jst2 = dx.tlc_judge("Trace_Cmp", "Trace_Cmp.cfg", kev, "c06k")
    ck.add_judge(n2, jst2)
    for i in bad2:
        ck.violation({"kind": "key_form", "form": kmeta[i]["form"], "attr": kmeta[i]["attr"], "shape": kmeta[i]["shape"], "rustc_failed": bool(kev[i].get("rustc_failed"))},
                     {"what": "the derived Hash / == does not use the key expression as written (placeholder `$` = the field as a place expression)",
                      "event": kev[i], "source": kmeta[i]["src"], "diags": kmeta[i].get("diags")})
    ck.notes["key_forms"] = len(kev)
    for i in (0, len(events) // 3, len(events) - 1):
        if events:
            e = events[i]
            ck.sample({"item": cf.item_src(e["P"], e["D"], "T", "distinct", "attr")[:400], "feed_of_first_values": e["hash"][:3]})
    ck.cov["evaluations"] = sum(len(e["vals"]) for e in events)
    ck.cov["distinct_nontrivial"] = stats["classes"]
    ck.cov["rule"] = "every accepted (field configuration, trait set containing Hash) x shapes x entry points; all values; feed = byte sequence written to a recording Hasher"
    ck.cov["exhaustive"] = True
    import checks_life
    checks_life.life_stage(ck, tier, ["C06"], tag="life_c06")
    return ck.finish()


# key expressions of every syntactic form: the placeholder `$` stands for the field as a place expression
KEY_FORMS = [
    # (tag, field type, two values, key template, the same expression written against a plain binding `v` of the field type)
    ("call", "fn(u8) -> u8", ["(|x| x + 1) as fn(u8) -> u8", "(|x| x * 2) as fn(u8) -> u8"], "$(3)", "v(3)"),
    ("index", "[u8; 3]", ["[1, 2, 3]", "[1, 5, 3]"], "$[1]", "v[1]"),
    ("tuple_field", "(u8, u16)", ["(1, 2)", "(3, 2)"], "$.1", "v.1"),
    ("deref", "&'static u8", ["&4u8", "&9u8"], "*$", "*v"),
    ("cast", "u8", ["200", "7"], "$ as u16 + 100", "v as u16 + 100"),
    ("neg", "i8", ["3", "-3"], "-$", "-v"),
    ("path_call", "u8", ["5", "6"], "u16::from($)", "u16::from(v)"),
    ("method", "::std::vec::Vec<u8>", ["::std::vec![1, 2]", "::std::vec![9, 9]"], "$.len()", "v.len()"),
    ("tuple_of", "u8", ["7", "10"], "($ % 3, $ / 3)", "(v % 3, v / 3)"),
    ("macro_arg", "::core::option::Option<u8>", ["::core::option::Option::Some(1)", "::core::option::Option::None"], "matches!($, ::core::option::Option::Some(_))", "matches!(v, ::core::option::Option::Some(_))"),
    ("block", "u8", ["1", "2"], "{ let q = $; q + 1 }", "{ let q = v; q + 1 }"),
    ("twice", "u8", ["1", "2"], "$ + $", "v + v"),
    ("paren", "u8", ["9", "4"], "($ % 4)", "(v % 4)"),
    # aggregate literals as keys: an array hashes with its length prefix, whatever its elements are
    ("array_of", "u8", ["7", "10"], "[$ % 3, $ / 3]", "[v % 3, v / 3]"),
    ("array_of_paren", "u8", ["7", "10"], "([$ % 3, $ / 3, 1])", "([v % 3, v / 3, 1])"),
    ("array_repeat", "u8", ["7", "10"], "[$ % 3; 2]", "[v % 3; 2]"),
    ("nested_tuple", "u8", ["7", "10"], "(($ % 3, [$ / 3]), 0u8)", "((v % 3, [v / 3]), 0u8)"),
    ("str_key", "&'static str", ["\"ab\"", "\"c\""], "$.trim()", "v.trim()"),
    ("string_key", "u8", ["7", "10"], "::std::format!(\"{}\", $ % 3)", "::std::format!(\"{}\", v % 3)"),
    ("option_key", "u8", ["7", "0"], "::core::num::NonZeroU8::new($)", "::core::num::NonZeroU8::new(v)"),
]


def key_forms_events(ck, tier):
    """model-free: the feed / equality of the derived impls must be those of the key expression evaluated on the field"""
    mods, meta = [], []
    for (tag, fty, vals, tmpl, plain) in KEY_FORMS:
        for attr in ("hash", "eq", "ord"):
            for shape in ("named", "tuple", "enum_named", "enum_tuple"):
                idx = len(mods)
                D = {"hash": "Hash", "eq": "Eq, PartialEq, Hash", "ord": "Ord, PartialOrd, Eq, PartialEq, Hash"}[attr]
                a = "#[%s(key = %s)]" % (attr, tmpl)
                if shape == "named":
                    # an inherent method named like the field: `$(..)` must call the field, not the method
                    decl = "pub struct T { pub g: u8, %s pub f: %s }\n    impl T { #[allow(dead_code)] pub fn f(&self, _x: u8) -> u8 { 250 } }" % (a, fty)
                    ctor, acc = "T { g: 1, f: %s }", "t.f"
                elif shape == "tuple":
                    decl = "pub struct T(pub u8, %s pub %s);" % (a, fty)
                    ctor, acc = "T(1, %s)", "t.1"
                elif shape == "enum_named":
                    decl = "pub enum T { A, B { g: u8, %s f: %s } }" % (a, fty)
                    ctor, acc = "T::B { g: 1, f: %s }", "(match t { T::B { f, .. } => f, _ => unreachable!() })"
                else:
                    decl = "pub enum T { A, B(u8, %s %s) }" % (a, fty)
                    ctor, acc = "T::B(1, %s)", "(match t { T::B(_, f) => f, _ => unreachable!() })"
                deref = "" if shape in ("named", "tuple") else "*"
                src = """pub mod m%d {
    #[::derive_ex::derive_ex(%s)] %s
    #[allow(unused_parens, clippy::all)] fn key(t: &T) -> impl ::core::hash::Hash + ::core::cmp::PartialEq + ::core::fmt::Debug { let v: %s = ::core::clone::Clone::clone(&(%s%s)); %s }
    pub fn run() -> String {
        let a: T = %s; let b: T = %s;
        let mut feed_ok = true; let mut eq_ok = true;
        for t in [&a, &b] {
            let mut exp = ::dx_support::feed_of(&1u8); exp.extend(::dx_support::feed_of(&key(t)));
            let got = ::dx_support::feed_of(t);
            // (an enum feeds its discriminant first: compare the tail)
            if !got.ends_with(&exp) { feed_ok = false; }
        }
        %s
        format!("{{\\"id\\":%d,\\"ev\\":\\"keyform\\",\\"form\\":\\"%s\\",\\"attr\\":\\"%s\\",\\"feed_matches\\":{},\\"eq_matches\\":{}}}\\n", feed_ok, eq_ok)
    }
}""" % (idx, D, decl, fty, deref, acc, plain, ctor % vals[0], ctor % vals[1],
        "" if attr == "hash" else "eq_ok = ((a == b) == (key(&a) == key(&b))) && (a == a) && (b == b);", idx, tag, attr)
                mods.append((idx, src))
                meta.append({"form": tag, "attr": attr, "shape": shape, "src": src})
    import checks_run
    res, failed = checks_run.run_modules(mods, "c06k")
    events = []
    for i, m in enumerate(meta):
        if i in res:
            e = dict(res[i][0])
            e.pop("id", None)
            events.append(e)
        else:
            events.append({"ev": "keyform", "form": m["form"], "attr": m["attr"], "feed_matches": False, "eq_matches": False, "rustc_failed": True})
            m["diags"] = failed.get(i)
    return events, meta


def c02(tier):
    ck = dx.Check("C02", tier)
    dsets = os.environ.get("DX_DSETS") or "closed"
    # design-level law check (no implementation involved)
    st, outp = dx.tlc_run("MC_Cmp", "MC_CmpCoh_%s.cfg" % dsets, "mc_cmpcoh_" + dsets, timeout=7200)
    if not st["ok"]:
        ck.violation({"kind": "model", "invariants": st["violated"]}, {"what": "coherence law violated on the MODEL", "tlc_output": outp,
                                                                       "tail": open(outp).read()[-3000:]})
        return ck.finish()
    ck.add_model(st)
    cfgs = dx.parse_prints(open(outp).read(), "CFG")
    ck.notes["model"] = {"module": "MC_Cmp", "cfg": "MC_CmpCoh_" + dsets, "configs": len(cfgs), "states": st.get("distinct"),
                         "tlc_wall_s": st.get("wall_s"), "cached": st.get("cached"),
                         "multi_trait_accepting": sum(1 for c in cfgs if sum(1 for o in c["out"] if o["o"] != "err") >= 2)}
    if ck.notes["model"]["multi_trait_accepting"] == 0:
        raise dx.ToolError("vacuous coherence run")
    items = items_from_cfgs(cfgs, tier, rotate=(tier == "quick"))
    ritems = random_items(random.Random(dx.seed() + 2), 700 if tier == "quick" else 8000)
    # the premise of the property: all key / by functions on a field express ONE key.  `key = $` (the field itself) next to another key is
    # outside it, so under the coherent mode an identity key is written as the common key like every other one
    for it in ritems:
        for v in it[0]["variants"]:
            for f in v["fields"]:
                for o in f["cmp"].values():
                    if o["sel"] == "idkey":
                        o["sel"] = "key"
    items += ritems
    events, meta, stats = observe_runtime(ck, items, "coherent", True, "c02")
    n, bad, jst = dx.tlc_judge("Trace_Cmp", "Trace_Cmp.cfg", events, "c02", chunk=max(300, -(-len(events) // 12)))
    ck.add_judge(n, jst)
    report_run_bad(ck, "C02", bad, events, meta, "coherence law broken on the real impls / tables differ from DxCmp under one consistent key")
    ck.notes["runtime"] = stats
    # partially ordered (float-like, NaN) field types, owned and behind shared references, where only PartialEq / PartialOrd are derived:
    # `==` need not be reflexive there, so only the agreement of ==, partial_cmp and the operators with DxCmp is judged (full tables, the
    # diagonal - a value compared with ITSELF - included), not the equivalence laws
    pitems = []
    for ci, c in enumerate(cfgs):
        if set(c["D"]) <= {"PartialEq", "PartialOrd"} and "PartialEq" in c["D"]:
            pvs = cf.pv_shapes()
            stag, build = pvs[ci % len(pvs)]
            # (a helper attribute that is not derive_ex's for this derived set stays on the item: such programs compile through #[derive(Ex)] only)
            present = [a for a in cf.ATTRS if c["c"][a] != cf.NOOPT]
            entry = ("attr" if ci % 2 else "derive") if all(a in c["rec"] for a in present) else "derive"
            pitems.append((build(c["c"]), c["D"], entry, stag, c["c"]))
    if pitems:
        pev, pmeta, pstats = observe_runtime(ck, pitems, "coherent", False, "c02pv")
        n2, bad2, jst2 = dx.tlc_judge("Trace_Cmp", "Trace_Cmp.cfg", pev, "c02pv", chunk=max(300, -(-len(pev) // 12)))
        ck.add_judge(n2, jst2)
        report_run_bad(ck, "C02", bad2, pev, pmeta, "== / partial_cmp of a type with partially ordered fields differ from DxCmp (a value compared with itself included)")
        ck.notes["runtime_pv"] = pstats
    ls = [e for e in events if e["ev"] == "laws"]
    for e in ls[:2] + ls[-1:]:
        ck.sample({"item": cf.item_src(e["P"], e["D"], "T", "coherent", "attr")[:400], "laws": e["laws"]})
    ck.cov["evaluations"] = len(ls)
    ck.cov["distinct_nontrivial"] = stats["classes"]
    ck.cov["rule"] = "every configuration the REAL expander accepts, all key/by functions expressing one key; laws evaluated on the real impls over all pairs and triples"
    ck.cov["exhaustive"] = True
    import checks_life
    checks_life.life_stage(ck, tier, ["C01", "C06"], tag="life_c02", coherent_only=True)
    return ck.finish()


# ------------------------------------------------------------------------------------------------
# C17: derive_ex(Eq) is refused by rustc unless every compared component is Eq
# ------------------------------------------------------------------------------------------------
def c17(tier):
    ck = dx.Check("C17", tier)
    cfgs, st = mc_cfgs(ck, tier, dsets="closed")
    Dsets = (["Eq", "PartialEq"], ["Eq", "PartialEq", "Hash"])
    # with Ord co-derived the program can only compile if Ord itself does not need the field type: ord(by) or an Ord-typed ord(key)
    Dsets_ord = (["Ord", "PartialOrd", "Eq", "PartialEq"], ["Ord", "PartialOrd", "Eq", "PartialEq", "Hash"])
    items = []
    for c in cfgs:
        with_ord = sorted(c["D"]) in [sorted(d) for d in Dsets_ord]
        if c["D"] not in Dsets and not with_ord:
            continue
        for ty in ("eq", "noneq"):
            for kty in ("eq", "noneq"):
                if with_ord and not (c["c"]["ord"]["sel"] == "by" or (c["c"]["ord"]["sel"] == "key" and kty == "eq")):
                    continue
                if with_ord and (c["c"]["ord"]["ign"] or c["c"]["partial_ord"]["sel"] != "none" or c["c"]["partial_ord"]["ign"]):
                    continue
                anykey = any(c["c"][a]["sel"] == "key" for a in cf.ATTRS)
                if kty == "noneq" and not anykey:
                    continue
                sub = lambda: cf.field(copy.deepcopy(c["c"]), ty=ty, kty=kty, dom=2)
                Ps = [("struct_tuple_only", cf.mkP("struct", [{"shape": "tuple", "fields": [sub()]}])),
                      ("enum_named_last", cf.mkP("enum", [{"shape": "unit", "fields": []},
                                                           {"shape": "named", "fields": [cf.field(), sub()]}]))]
                # a trailing PartialEq-only field that is always compared: the program must be refused whatever the subject field does
                if ty == "eq" and kty == "eq":
                    Ps.append(("enum_tuple_ne_last", cf.mkP("enum", [{"shape": "tuple", "fields": [sub(), cf.field(ty="noneq")]},
                                                                     {"shape": "unit", "fields": []}])))
                if tier == "thorough":
                    Ps.append(("struct_named_first", cf.mkP("struct", [{"shape": "named", "fields": [sub(), cf.field(ty="eq")]}])))
                present = [a for a in cf.ATTRS if c["c"][a] != cf.NOOPT]
                ent = "any" if all(a in c["rec"] for a in present) else "derive"
                for stag, P in Ps:
                    items.append((P, c["D"], ent, stag, c["c"]))
    # two compared fields of the SAME PartialEq-only type: what one field does must not excuse the other (any order, same or different variants)
    def pcfg(kind):
        c = cf.plain()
        if kind == "eq_key":
            c["eq"] = {"ign": False, "rev": False, "sel": "key"}
        elif kind == "ord_key":
            c["ord"] = {"ign": False, "rev": False, "sel": "key"}
        elif kind == "eq_by":
            c["eq"] = {"ign": False, "rev": False, "sel": "by"}
        elif kind == "eq_ign":
            c["eq"] = {"ign": True, "rev": False, "sel": "none"}
        return c
    palette = ["plain", "eq_key", "ord_key", "eq_by", "eq_ign"]
    for ka in palette:
        for kb in palette:
            for tya, tyb in (("noneq", "noneq"), ("noneq", "eq"), ("eq", "noneq")):
                fa = lambda: cf.field(pcfg(ka), ty=tya, kty="eq", dom=2)
                fb = lambda: cf.field(pcfg(kb), ty=tyb, kty="eq", dom=2)
                for stag, P in (("pair_struct", cf.mkP("struct", [{"shape": "named", "fields": [fa(), fb()]}])),
                                ("pair_variants", cf.mkP("enum", [{"shape": "tuple", "fields": [fa()]}, {"shape": "unit", "fields": []}, {"shape": "tuple", "fields": [cf.field(), fb()]}]))):
                    items.append((P, ["Eq", "PartialEq"], "derive", stag, pcfg(ka)))
    # in-process: keep what derive_ex itself accepts (its own refusals are C05's subject), dedupe on impl tokens
    reqs = []
    for (P, D, entry, stag, c) in items:
        src = cf.item_src(P, D, "T", "distinct", "attr")
        reqs.append({"k": "expand", "id": len(reqs), "entry": "attr", "attr": cf.attr_args(P, D), "item": src[src.index("]") + 1:]})
    resps = dx.expand(reqs)
    classes = {}
    for i, (r, it) in enumerate(zip(resps, items)):
        cl, info = cf.classes_of(r, it[1], "attr")
        if all(cl[t] == "impl" for t in it[1]) and info["whole"] == "ok":
            # field types are part of the program but not of the impl tokens: key on the re-emitted item too
            classes.setdefault(cf.impl_key(r) + r["items"][0]["hash"] + it[3] + it[2], []).append(i)
    reps = sorted((ms[0], ms) for ms in classes.values())
    wd = os.path.join(dx.WORK, "c17-%d" % os.getpid())

    def comp(rep_ms):
        rep, ms = rep_ms
        P, D, entry, stag, c = items[rep]
        ent = "derive" if entry == "derive" else ("attr" if rep % 2 == 0 else "derive")
        src = "#![allow(dead_code, unused)]\n" + cf.item_src(P, D, "T", "distinct", ent, for_rustc=True) + "\n"
        ok, diags = dx.check_only("p%d" % rep, src, wd)
        errs = [d for d in diags if d.get("level") == "error"]
        eqerr = any((d.get("code") or {}).get("code") == "E0277" and "Eq" in (d.get("message", "") + json.dumps([c.get("message", "") for c in d.get("children", [])])) for d in errs)
        return rep, ok, eqerr, dx.diag_summary(diags)[:3], src
    out = dx.pmap(comp, reps)
    import shutil
    shutil.rmtree(wd, ignore_errors=True)
    events, meta = [], []
    for (rep, ok, eqerr, ds, src), (_, ms) in zip(out, reps):
        for m in ms:
            P, D, entry, stag, c = items[m]
            events.append({"ev": "eqc", "P": P, "D": D, "rustc_ok": ok, "eq_bound_error": eqerr})
            meta.append((m, ds, src))
    dx.log("c17: %d items, %d accepted by derive_ex, %d distinct programs compiled (metadata-only)" % (len(items), len(events), len(reps)))
    n, bad, jst = dx.tlc_judge("Trace_Cmp", "Trace_Cmp.cfg", events, "c17", chunk=max(300, -(-len(events) // 12)))
    ck.add_judge(n, jst)
    for i in bad:
        m, ds, src = meta[i]
        P, D, entry, stag, c = items[m]
        f = [f for v in P["variants"] for f in v["fields"] if f["dom"] == 2 and f["cmp"] == c][0] if False else None
        sub = [f for v in P["variants"] for f in v["fields"]][-1] if stag not in ("struct_named_first", "enum_tuple_ne_last") else P["variants"][0]["fields"][0]
        sig = {"kind": "eq_refusal", "cfg": sig_cfg(c), "D": "+".join(D), "ty": sub["ty"], "kty": sub["kty"], "rustc_ok": events[i]["rustc_ok"], "shape": stag}
        ck.violation(sig, {"what": "rustc accept/reject of derive_ex(Eq) differs from EqCompiles", "source": src, "diagnostics": ds, "observed": {k: v for k, v in events[i].items() if k != "P"}})
    gen_events, gen_meta = c17_generic(tier)
    base = len(events)
    n2, bad2, jst2 = dx.tlc_judge("Trace_Cmp", "Trace_Cmp.cfg", gen_events, "c17g")
    ck.add_judge(n2, jst2)
    for i in bad2:
        ck.violation({"kind": "eq_refusal_generic", "case": gen_meta[i]["tag"], "rustc_ok": gen_events[i]["rustc_ok"]},
                     {"what": "generic item: rustc accept/reject of derive_ex(Eq) differs from the rule (every compared component must be Eq)", "source": gen_meta[i]["src"],
                      "diagnostics": gen_meta[i]["diags"], "observed": gen_events[i]})
    acc = sum(1 for e in events if e["rustc_ok"])
    ck.notes["runtime"] = {"items": len(items), "events": len(events), "programs": len(reps), "rustc_accepts": acc, "rustc_rejects": len(events) - acc,
                           "generic_programs": len(gen_events)}
    if events and (acc == 0 or acc == len(events)):
        raise dx.ToolError("vacuous C17 run: %s" % ck.notes["runtime"])
    for i in (0, len(events) // 2, len(events) - 1):
        ck.sample({"source": meta[i][2][:400], "rustc_ok": events[i]["rustc_ok"], "eq_bound_error": events[i]["eq_bound_error"]})
    ck.cov["evaluations"] = len(events)
    ck.cov["distinct_nontrivial"] = len(reps)
    ck.cov["rule"] = "every matrix configuration derive_ex accepts for {Eq,PartialEq} and {Eq,PartialEq,Hash} x field type Eq/PartialEq-only x key type Eq/PartialEq-only x shapes; distinct = distinct programs compiled"
    ck.cov["exhaustive"] = True
    ck.assumptions.append("decisive oracle for 'compiles' is rustc (metadata-only build with the genuine proc-macro)")
    return ck.finish()


def hygiene_sample(tier, hook, rnd):
    """C13: a seeded sample of the accepted comparison matrix, compiled under a renaming / shadowing transform and judged
    by the same trace specification"""
    ck = hook["ck"]
    inner = dx.Check("C13tmp", tier)
    cfgs, st = mc_cfgs(inner, tier, dsets="closed")
    sample = rnd.sample(cfgs, 400 if tier == "quick" else 3000)
    items = items_from_cfgs(sample, "quick", rotate=True)
    events, meta, stats = observe_runtime(ck, items, "distinct", False, "c13cmp", transform=hook["transform"])
    n, bad, jst = dx.tlc_judge("Trace_Cmp", "Trace_Cmp.cfg", events, "c13cmp", chunk=max(300, -(-len(events) // 8)))
    ck.add_judge(n, jst)
    report_run_bad(ck, "C13", bad, events, meta, "comparison impls behave differently (or stop compiling) under renaming / shadowing")


def c17_generic(tier):
    """generic items: the Eq impl must be refused unless its bounds make every compared component Eq.
    Each case is (tag, expected by the rule, program).  The rule is the specification's EqCompilesField with
    `ty` read as "the bounds in force imply FieldTy: Eq"; here it is tabulated per case because the bound texts are fixed."""
    cases = []
    hdr = "#![allow(dead_code)]\n"
    bounds = [("default", "", True), ("type_this_eq", "Eq(bound(T: ::core::cmp::Eq))", True), ("type_this_partialeq", "Eq(bound(T: ::core::cmp::PartialEq))", False),
              ("type_this_empty", "Eq(bound())", False), ("type_this_dd", "Eq(bound(..))", True)]
    for tag, b, ok in bounds:
        for kind in ("struct", "enum"):
            item = "pub struct X<T>(pub T);" if kind == "struct" else "pub enum X<T> { A(T), B }"
            d = ("%s, PartialEq" % b) if b else "Eq, PartialEq"
            cases.append(("%s_%s" % (tag, kind), ok, hdr + "#[::derive_ex::derive_ex(%s)] %s\n" % (d, item)))
    # field / variant level
    for lvl_tag, wrap in (("field", lambda a: "pub struct X<T>(%s pub T, pub u8);" % a), ("field_enum", lambda a: "pub enum X<T> { A(u8, %s T), B }" % a),
                          ("variant", lambda a: "pub enum X<T> { %s A(T), B }" % a)):
        for btag, b, ok in (("eq", "bound(T: ::core::cmp::Eq)", True), ("partialeq", "bound(T: ::core::cmp::PartialEq)", False), ("empty", "bound()", False),
                            ("dd", "bound(..)", True), ("partialeq_dd", "bound(T: ::core::cmp::PartialEq, ..)", True)):
            for form in ("#[derive_ex(Eq(%s))]", "#[derive_ex(Eq, %s)]", "#[eq(%s)]"):
                a = form % b
                cases.append(("%s_%s_%s" % (lvl_tag, btag, form.split("(")[0].strip("#[")), ok,
                              hdr + "#[::derive_ex::derive_ex(Eq, PartialEq)] %s\n" % wrap(a)))
    # field types that refer back to the item, and field types that mention a lifetime parameter only: every component still counts
    for tag, ok, item in (("recursive_with_float", False, "pub struct X { pub children: ::std::vec::Vec<(X, f64)>, pub n: u8 }"),
                          ("recursive_self_with_float", False, "pub enum X { Leaf(u8), Node(::std::boxed::Box<Self>, ::std::vec::Vec<(Self, f32)>) }"),
                          ("recursive_plain", True, "pub struct X { pub children: ::std::vec::Vec<X>, pub n: u8 }"),
                          ("recursive_self_plain", True, "pub enum X { Leaf(u8), Node(::std::boxed::Box<Self>, ::core::option::Option<::std::boxed::Box<X>>) }"),
                          ("lifetime_ref_float", False, "pub struct X<'a>(pub &'a f64, pub u8);"),
                          ("lifetime_slice_float", False, "pub struct X<'a> { pub a: &'a [f32] }"),
                          ("lifetime_cow_float", False, "pub struct X<'a> { pub a: ::std::borrow::Cow<'a, [f64]> }"),
                          ("lifetime_tuple_float", False, "pub enum X<'a> { A((&'a str, f64)), B }"),
                          ("lifetime_ref_int", True, "pub struct X<'a>(pub &'a u8, pub &'a str);"),
                          ("lifetime_and_type_param_float", False, "pub struct X<'a, T>(pub &'a T, pub &'a f64);"),
                          # data-carrying variants with explicit discriminants (primitive repr)
                          ("disc_variant_float", False, "#[repr(u8)] pub enum X { A(u8) = 1, B(f32) = 2, C = 7 }"),
                          ("disc_variant_float_named", False, "#[repr(u8)] pub enum X { A = 3, B { x: (u8, f64) } = 10 }"),
                          ("disc_variant_float_keyed", False, "#[repr(i8)] pub enum X { A = -1, B { #[eq(key = $.1)] x: (u8, f64) } = 10 }"),
                          ("disc_variant_ints", True, "#[repr(u8)] pub enum X { A(u8) = 1, B { x: (u8, i64) } = 2, C = 7 }"),
                          # different types whose paths END in the same segment / the same type under several names; a type named like its field's type
                          ("same_last_segment_eq_first", False, "pub struct X { pub raw: exact::Value, pub scaled: approx::Value }\n"
                           "pub mod exact { #[derive(PartialEq, Eq)] pub struct Value(pub u8); } pub mod approx { #[derive(PartialEq)] pub struct Value(pub f64); }"),
                          ("same_last_segment_float_first", False, "pub enum X { A(approx::Value, exact::Value), B(exact::Value) }\n"
                           "pub mod exact { #[derive(PartialEq, Eq)] pub struct Value(pub u8); } pub mod approx { #[derive(PartialEq)] pub struct Value(pub f64); }"),
                          ("same_last_segment_both_eq", True, "pub struct X { pub raw: exact::Value, pub scaled: other::Value }\n"
                           "pub mod exact { #[derive(PartialEq, Eq)] pub struct Value(pub u8); } pub mod other { #[derive(PartialEq, Eq)] pub struct Value(pub i64); }"),
                          ("alias_of_float", False, "pub struct X { pub a: u8, pub b: Exact, pub c: u8 }\npub type Exact = f64;"),
                          ("same_type_twice_then_float", False, "pub struct X(pub u8, pub u8, pub f32, pub u8);"),
                          ("item_named_like_float_wrapper", False, "pub struct X(pub inner::X, pub u8);\npub mod inner { #[derive(PartialEq)] pub struct X(pub f64); }"),
                          ("generic_args_differ", False, "pub struct X(pub ::core::option::Option<u8>, pub ::core::option::Option<f64>);"),
                          # key expressions that go through `Self`
                          ("key_through_self_float", False, "pub struct X { #[eq(key = Self::k(&$))] pub a: f64 }\nimpl X { fn k(v: &f64) -> f64 { *v } }"),
                          ("key_through_self_int", True, "pub struct X { #[eq(key = Self::k(&$))] pub a: f64 }\nimpl X { fn k(v: &f64) -> i64 { *v as i64 } }"),
                          ("key_through_self_generic_float", False, "pub enum X<T> { A(#[eq(key = <Self>::SCALE * 1.5)] T), B }\nimpl<T> X<T> { const SCALE: f64 = 2.0; }"),
                          ("key_through_self_generic_int", True, "pub enum X<T> { A(#[eq(key = <Self>::SCALE + 1)] T), B }\nimpl<T> X<T> { const SCALE: u8 = 2; }")):
        cases.append((tag, ok, hdr + "#[::derive_ex::derive_ex(Eq, PartialEq)] %s\n" % item))
    # ignored / by-compared generic fields need nothing
    cases.append(("ignored_generic", True, hdr + "#[::derive_ex::derive_ex(Eq, PartialEq)] pub struct X<T>(#[eq(ignore, bound())] pub T, pub u8);\n"))
    cases.append(("by_generic", True, hdr + "#[::derive_ex::derive_ex(Eq, PartialEq)] pub struct X<T>(#[eq(by = |_: &T, _: &T| true, bound())] pub T, pub u8);\n"))
    wd = os.path.join(dx.WORK, "c17g-%d" % os.getpid())

    def comp(ix):
        i, (tag, ok, src) = ix
        r, diags = dx.check_only("g%d" % i, src, wd)
        errs = [d for d in diags if d.get("level") == "error"]
        eqerr = any((d.get("code") or {}).get("code") == "E0277" and "Eq" in json.dumps(d) for d in errs)
        return r, eqerr, dx.diag_summary(diags)[:3]
    res = dx.pmap(comp, list(enumerate(cases)))
    import shutil
    shutil.rmtree(wd, ignore_errors=True)
    events, meta = [], []
    for (tag, ok, src), (r, eqerr, ds) in zip(cases, res):
        # descriptor: one field whose type is Eq exactly when the bounds in force imply it
        P = cf.mkP("struct", [{"shape": "tuple", "fields": [cf.field(ty="eq" if ok else "noneq", dom=1)]}])
        events.append({"ev": "eqc", "P": P, "D": ["Eq", "PartialEq"], "rustc_ok": r, "eq_bound_error": eqerr})
        meta.append({"tag": tag, "src": src, "diags": ds})
    return events, meta
