"""Shared machinery of the derive-ex verification checks (python3 stdlib only).

Stages used by every check:   TLC GENERATES -> Rust OBSERVES the real code -> TLC JUDGES.
This module contains no expectation about derive-ex; it runs tools, moves ndjson around and
writes evidence.  The only oracle is the TLA+ text under /verif/spec.
"""
import hashlib, json, os, re, shutil, subprocess, sys, time, glob, random
from concurrent.futures import ThreadPoolExecutor

ROOT = os.path.dirname(os.path.dirname(os.path.abspath(__file__)))
SPEC = os.path.join(ROOT, "spec")
HARNESS = os.path.join(ROOT, "harness")
WORK = os.path.join(ROOT, "work")
EVID = os.path.join(ROOT, "evidence")
REPLAYS = os.path.join(ROOT, "replays")
REPO = os.environ.get("DX_REPO", "/repo")
NCPU = int(os.environ.get("DX_CPUS", "16"))
TLC_WORKERS = int(os.environ.get("DX_TLC_WORKERS", "12"))


class ToolError(Exception):
    pass


def log(*a):
    print("[dx]", *a, file=sys.stderr, flush=True)


def sh(cmd, **kw):
    return subprocess.run(cmd, shell=isinstance(cmd, str), stdout=subprocess.PIPE,
                          stderr=subprocess.PIPE, text=True, **kw)


def seed():
    try:
        return int(os.environ.get("VERIF_SEED", "1"))
    except ValueError:
        return 1


# ------------------------------------------------------------------------------------------------
# building the harness from /repo's current working tree
# ------------------------------------------------------------------------------------------------
_built = {}


def cargo_env():
    e = dict(os.environ)
    e["CARGO_NET_OFFLINE"] = "true"
    return e


def build_harness():
    """(Re)build in-process expander, the genuine proc-macro and dx-support.  cargo
    fingerprints pick up any edit under /repo/derive-ex/src."""
    if _built:
        return _built
    t0 = time.time()
    r = sh("cargo build --offline --release -p dx-expand 2>&1", cwd=HARNESS, env=cargo_env())
    if r.returncode != 0:
        raise ToolError("cargo build dx-expand failed:\n" + r.stdout[-3000:])
    r = sh("cargo build --offline -p dx-real -p dx-support 2>&1", cwd=HARNESS, env=cargo_env())
    if r.returncode != 0:
        raise ToolError("cargo build dx-real/dx-support failed:\n" + r.stdout[-3000:])
    deps = os.path.join(HARNESS, "target", "debug", "deps")
    sos = sorted(glob.glob(os.path.join(deps, "libderive_ex-*.so")), key=os.path.getmtime)
    rl = sorted(glob.glob(os.path.join(deps, "libdx_support-*.rlib")), key=os.path.getmtime)
    if not sos or not rl:
        raise ToolError("built artefacts not found")
    _built.update(expand=os.path.join(HARNESS, "target", "release", "dx-expand"),
                  so=sos[-1], support=rl[-1], deps=deps, build_s=time.time() - t0)
    return _built


def _expand_once(reqs, threads=None, limit_ms=None):
    b = build_harness()
    inp = "\n".join(json.dumps(r) for r in reqs) + "\n"
    env = dict(os.environ)
    env["DX_THREADS"] = str(threads or NCPU)
    if limit_ms:
        env["DX_EXPAND_TIMEOUT_MS"] = str(limit_ms)
    try:
        p = subprocess.run([b["expand"]], input=inp, stdout=subprocess.PIPE, stderr=subprocess.PIPE,
                           text=True, env=env, timeout=3600)
    except subprocess.TimeoutExpired:
        raise ToolError("dx-expand did not finish within an hour")
    if p.returncode != 0:
        # the observer died (a stack overflow or an abort inside an expansion cannot be caught): find the request by bisection
        # and answer it with class "crash"; everything else is answered normally
        if p.returncode < 0 or p.returncode in (134, 139):
            if len(reqs) == 1:
                return [{"id": reqs[0].get("id"), "class": "crash", "items": [], "det": None, "signal": p.returncode}]
            mid = len(reqs) // 2
            return _expand_once(reqs[:mid], threads, limit_ms) + _expand_once(reqs[mid:], threads, limit_ms)
        raise ToolError("dx-expand failed: " + p.stderr[-2000:])
    out = [json.loads(l) for l in p.stdout.splitlines() if l.strip()]
    if len(out) != len(reqs):
        raise ToolError("dx-expand answered %d of %d requests" % (len(out), len(reqs)))
    return out


def expand(reqs, threads=None):
    """Run the in-process observer on a list of request dicts; returns list of response dicts.
    An expansion that does not return is answered with class "timeout" (watchdog in dx-expand); requests that could not be
    started because every worker was stuck are submitted again (shorter limit) until all have an answer."""
    out = _expand_once(reqs, threads)
    rounds = 0
    while any(r.get("class") == "not_run" for r in out):
        rounds += 1
        if rounds > 80:
            raise ToolError("dx-expand: requests still not run after %d rounds" % rounds)
        idx = [i for i, r in enumerate(out) if r.get("class") == "not_run"]
        again = _expand_once([reqs[i] for i in idx], threads, limit_ms=4000)
        for i, r in zip(idx, again):
            out[i] = r
    return out


# ------------------------------------------------------------------------------------------------
# rustc on generated programs (genuine proc-macro, guard off)
# ------------------------------------------------------------------------------------------------
def rustc(src, out, emit="link", crate_type="bin", extra=None, cwd=None, deny_warnings=False):
    b = build_harness()
    cmd = ["rustc", "--edition", "2021", "--crate-type", crate_type, "--error-format=json",
           "--extern", "derive_ex=" + b["so"], "--extern", "dx_support=" + b["support"],
           "-L", "dependency=" + b["deps"], "-C", "debuginfo=0", "-C", "opt-level=0",
           "-C", "codegen-units=16", "--cap-lints", "warn" if not deny_warnings else "forbid"]
    if emit == "metadata":
        cmd += ["--emit=metadata"]
    cmd += ["-o", out, src]
    if extra:
        cmd += extra
    try:
        p = subprocess.run(cmd, stdout=subprocess.PIPE, stderr=subprocess.PIPE, text=True, cwd=cwd, timeout=1800)
    except subprocess.TimeoutExpired:
        raise ToolError("rustc did not finish within 30 minutes on %s (a macro expansion that does not terminate?)" % src)
    diags = []
    for l in p.stderr.splitlines():
        if l.startswith("{"):
            try:
                diags.append(json.loads(l))
            except Exception:
                pass
    return p.returncode == 0, diags, p.stderr


def diag_summary(diags, level=("error",)):
    out = []
    for d in diags:
        if d.get("level") in level:
            code = (d.get("code") or {}).get("code")
            out.append({"code": code, "msg": d.get("message", "")[:300]})
    return out


def compile_and_run(name, src_text, workdir, timeout=600):
    """Compile one program (bin) and run it; returns (ok, stdout, diagnostics)."""
    os.makedirs(workdir, exist_ok=True)
    src = os.path.join(workdir, name + ".rs")
    exe = os.path.join(workdir, name + ".bin")
    with open(src, "w") as f:
        f.write(src_text)
    ok, diags, raw = rustc(src, exe)
    if not ok:
        return False, "", diags
    p = subprocess.run([exe], stdout=subprocess.PIPE, stderr=subprocess.PIPE, text=True, timeout=timeout)
    try:
        os.remove(exe)
    except OSError:
        pass
    if p.returncode != 0:
        return False, p.stdout, [{"level": "error", "message": "program exited %d: %s" % (p.returncode, p.stderr[-500:])}]
    return True, p.stdout, diags


def check_only(name, src_text, workdir, crate_type="lib", deny_warnings=False):
    """Metadata-only compilation of one program."""
    os.makedirs(workdir, exist_ok=True)
    src = os.path.join(workdir, name + ".rs")
    out = os.path.join(workdir, name + ".rmeta")
    with open(src, "w") as f:
        f.write(src_text)
    ok, diags, raw = rustc(src, out, emit="metadata", crate_type=crate_type, deny_warnings=deny_warnings)
    try:
        os.remove(out)
    except OSError:
        pass
    return ok, diags


def pmap(fn, items, workers=None):
    with ThreadPoolExecutor(max_workers=workers or NCPU) as ex:
        return list(ex.map(fn, items))


# ------------------------------------------------------------------------------------------------
# TLC
# ------------------------------------------------------------------------------------------------
def _module_closure(module, seen=None):
    """module plus every spec/ module it (transitively) EXTENDS or INSTANCEs"""
    seen = seen if seen is not None else set()
    f = os.path.join(SPEC, module + ".tla")
    if module in seen or not os.path.exists(f):
        return seen
    seen.add(module)
    text = open(f).read()
    for m in re.finditer(r"^\s*EXTENDS\s+([^\n]+)", text, re.M):
        for name in m.group(1).split(","):
            _module_closure(name.strip(), seen)
    for m in re.finditer(r"INSTANCE\s+(\w+)", text):
        _module_closure(m.group(1), seen)
    return seen


def spec_hash(module, cfg, extra=""):
    """hash of the spec text a TLC run depends on: the module's EXTENDS closure and its cfg"""
    h = hashlib.sha256()
    for m in sorted(_module_closure(module)):
        h.update(m.encode())
        h.update(open(os.path.join(SPEC, m + ".tla"), "rb").read())
    h.update(open(os.path.join(SPEC, cfg), "rb").read())
    h.update(extra.encode())
    return h.hexdigest()[:16]


def _parse_tlc_stats(text):
    st = {}
    m = re.search(r"(\d[\d,]*) states generated, (\d[\d,]*) distinct states found, (\d[\d,]*) states left", text)
    if m:
        st["generated"] = int(m.group(1).replace(",", ""))
        st["distinct"] = int(m.group(2).replace(",", ""))
    m = re.search(r"The depth of the complete state graph search is (\d+)", text)
    if m:
        st["depth"] = int(m.group(1))
    st["ok"] = "Model checking completed. No error has been found." in text
    m = re.search(r"Progress: (\d+) states checked, (\d+) traces generated", text)
    if m and "The number of states generated" in text:          # a simulation run that ended normally
        st["generated"] = int(m.group(1))
        st["traces"] = int(m.group(2))
        st["ok"] = "is violated" not in text and "Error:" not in text
    st["violated"] = re.findall(r"Invariant (\w+) is violated", text)
    st["errors"] = [l for l in text.splitlines() if l.startswith("Error:")][:5]
    return st


_PRINT_RE = re.compile(r'^<<"(\w+)", "(.*)">>$')


def _unescape_tla(s):
    return s.replace('\\"', '"').replace("\\\\", "\\")


def parse_prints(text, tag):
    out = []
    for l in text.splitlines():
        m = _PRINT_RE.match(l)
        if m and m.group(1) == tag:
            out.append(json.loads(_unescape_tla(m.group(2))))
    return out


def tlc_run(module, cfg, tag, timeout=3000, workers=None, env_extra=None, simulate=None, cache=True,
            coverage=False, jvm=None, extra=None):
    """Run TLC on spec/<module>.tla with spec/<cfg>; returns (stats, raw_output_path).
    Results are cached under work/tlc/<spec-hash>-<tag>.out (they depend on the spec only)."""
    os.makedirs(os.path.join(WORK, "tlc"), exist_ok=True)
    key = spec_hash(module, cfg, str(simulate) + json.dumps(env_extra or {}, sort_keys=True) + (json.dumps(extra) if extra else ""))
    outp = os.path.join(WORK, "tlc", "%s-%s.out" % (tag, key))
    if cache and os.path.exists(outp + ".ok"):
        text = open(outp).read()
        st = _parse_tlc_stats(text)
        st["cached"] = True
        st["wall_s"] = float(open(outp + ".ok").read() or 0)
        return st, outp
    md = os.path.join(WORK, "tlc", "md-%s-%d" % (tag, os.getpid()))
    cmd = ["timeout", str(timeout), "tlc", "-workers", str(workers or TLC_WORKERS), "-metadir", md,
           "-cleanup", "-noGenerateSpecTE", "-checkpoint", "0"]      # (no checkpoints: StateDeque cannot write them, and no run is resumed)
    if coverage:
        cmd += ["-coverage", "1"]
    if simulate:
        cmd += ["-simulate", simulate]
    if extra:
        cmd += list(extra)
    cmd += ["-config", os.path.join(SPEC, cfg), os.path.join(SPEC, module + ".tla")]
    env = dict(os.environ)
    # TLC unpacks its standard modules into java.io.tmpdir on every run: keep that inside work/ and remove it afterwards
    tmpd = md + "-tmp"
    os.makedirs(tmpd, exist_ok=True)
    env["JAVA_TOOL_OPTIONS"] = ((jvm + " ") if jvm else "") + "-Djava.io.tmpdir=" + tmpd
    if env_extra:
        env.update(env_extra)
    t0 = time.time()
    with open(outp, "w") as f:
        p = subprocess.run(cmd, stdout=f, stderr=subprocess.STDOUT, env=env, cwd=os.path.join(WORK, "tlc"))
    shutil.rmtree(md, ignore_errors=True)
    shutil.rmtree(tmpd, ignore_errors=True)
    text = open(outp).read()
    st = _parse_tlc_stats(text)
    st["cached"] = False
    st["wall_s"] = round(time.time() - t0, 1)
    st["rc"] = p.returncode
    if p.returncode == 124:
        raise ToolError("TLC timed out on %s/%s" % (module, cfg))
    if cache and st["ok"]:
        open(outp + ".ok", "w").write(str(st["wall_s"]))
    return st, outp


def _keep_sample(dirname, module, tag, events, bad=(), per_type=6):
    os.makedirs(dirname, exist_ok=True)
    rnd = random.Random(7)
    by = {}
    RESETS = ("reset", "life_reset")
    stateful = any(e.get("ev") in RESETS for e in events)
    if stateful:        # groups: a reset event and everything up to the next one
        groups, cur = [], []
        for e in events:
            if e.get("ev") in RESETS and cur:
                groups.append(cur)
                cur = []
            cur.append(e)
        if cur:
            groups.append(cur)
    else:
        groups = [[e] for e in events]
    pos = 0
    for g in groups:
        ok = not any((pos + k) in bad for k in range(len(g)))
        pos += len(g)
        if ok and g[0].get("ev") == "life_reset":
            # a history: every prefix is a group of its own, filed under the call it ends with
            for k in range(1, len(g)):
                if g[k].get("judge", True):
                    by.setdefault("life:" + g[k]["x"]["act"], []).append(g[:k + 1])
        elif ok:
            by.setdefault(g[-1].get("ev"), []).append(g)
    with open(os.path.join(dirname, "%s.%s.ndjson" % (module, tag)), "w") as f:
        for ev, gs in sorted(by.items(), key=lambda x: str(x[0])):
            for g in (gs if len(gs) <= per_type else rnd.sample(gs, per_type)):
                if len(json.dumps(g)) < 20000:
                    f.write(json.dumps(g, separators=(",", ":")) + "\n")


def tlc_judge(module, cfg, events, tag, timeout=3000, chunk=None, cut_before=None):
    """Trace validation: write events as ndjson, run the trace spec, return (n_consumed, bad_indices, stats).
    bad indices are 0-based positions into `events`.  cut_before(e): stateful traces may only be cut in front of such an event."""
    os.makedirs(os.path.join(WORK, "trace"), exist_ok=True)
    if chunk and cut_before:
        chunks, cur = [], []
        for e in events:
            if len(cur) >= chunk and cut_before(e):
                chunks.append(cur)
                cur = []
            cur.append(e)
        if cur:
            chunks.append(cur)
    else:
        chunks = [events] if not chunk else [events[i:i + chunk] for i in range(0, len(events), chunk)]
    jobs = []
    off = 0
    for ci, evs in enumerate(chunks):
        path = os.path.join(WORK, "trace", "%s-%d-%d.ndjson" % (tag, os.getpid(), ci))
        with open(path, "w") as f:
            for e in evs:
                f.write(json.dumps(e, separators=(",", ":")) + "\n")
        jobs.append((ci, path, off, len(evs)))
        off += len(evs)

    def one(job):
        ci, path, off, n = job
        st, outp = tlc_run(module, cfg, "%s-j%d-%d" % (tag, os.getpid(), ci), timeout=timeout, workers=1,
                           env_extra={"TRACE": path}, cache=False,
                           jvm="-Xss1g -Xmx3g -Dtlc2.tool.queue.IStateQueue=StateDeque")
        text = open(outp).read()
        js = parse_prints(text, "JUDGE")
        if not js:
            raise ToolError("trace validation produced no verdict (%s):\n%s" % (outp, text[-1500:]))
        j = js[-1]
        if j["n"] != n:
            raise ToolError("trace validation consumed %d of %d events (%s)" % (j["n"], n, outp))
        os.remove(path)
        os.remove(outp)
        return [off + (b - 1) for b in j["bad"]], st

    res = pmap(one, jobs, workers=min(len(jobs), max(1, NCPU // 2)))
    bad = []
    states = 0
    trans = 0
    for b, st in res:
        bad += b
        states += st.get("distinct", 0)
        trans += st.get("generated", 0)
    keep = os.environ.get("DX_KEEP_TRACE")
    if keep:            # bin/selftest capture: keep a sample of the ACCEPTED events per trace specification
        _keep_sample(keep, module, tag, events, set(bad))
    return off, sorted(bad), {"states": states, "transitions": trans}


# ------------------------------------------------------------------------------------------------
# known findings, replays, evidence
# ------------------------------------------------------------------------------------------------
def load_known():
    p = os.path.join(ROOT, "known_findings.json")
    if not os.path.exists(p):
        return []
    return json.load(open(p)).get("findings", [])


def match_known(pid, signature):
    """A known finding matches when its property is pid and its `match` dict is a sub-dict of the
    violation's signature (exact values)."""
    for k in load_known():
        if k.get("status") != "open" or k.get("property") != pid:
            continue
        m = k.get("match", {})
        if all(signature.get(a) == b for a, b in m.items()):
            return k
    return None


def write_replay(pid, idx, payload):
    d = os.path.join(REPLAYS, pid)
    os.makedirs(d, exist_ok=True)
    path = os.path.join(d, "v%04d.json" % idx)
    with open(path, "w") as f:
        json.dump(payload, f, indent=1)
    return path


class Check:
    def __init__(self, pid, tier, level="model_checking"):
        self.pid = pid
        self.tier = tier
        self.level = level
        self.t0 = time.time()
        self.cov = {"states": 0, "transitions": 0, "traces_validated_against_impl": 0, "samples": [],
                    "evaluations": 0, "distinct_nontrivial": 0, "rule": ""}
        self.assumptions = []
        self.violations = []   # (signature, payload)
        self.notes = {}
        d = os.path.join(REPLAYS, pid)
        shutil.rmtree(d, ignore_errors=True)

    def add_model(self, st):
        self.cov["states"] += st.get("distinct", 0)
        self.cov["transitions"] += st.get("generated", 0)

    def add_judge(self, n, jst):
        self.cov["traces_validated_against_impl"] += n
        self.cov["states"] += jst.get("states", 0)
        self.cov["transitions"] += jst.get("transitions", 0)

    def sample(self, x, limit=4):
        if len(self.cov["samples"]) < limit:
            self.cov["samples"].append(x)

    def violation(self, signature, payload):
        self.violations.append((signature, payload))

    def finish(self):
        known_hit = {}
        new = []
        for sig, payload in self.violations:
            k = match_known(self.pid, sig)
            if k:
                known_hit.setdefault(k["id"], [k, 0])[1] += 1
            else:
                new.append((sig, payload))
        for kid, (k, n) in sorted(known_hit.items()):
            print("KNOWN-FINDING: property=%s %s (%s; %d occurrence(s) in this run)" % (self.pid, k["what"], kid, n))
        # group new violations by signature so the output stays readable
        seen = {}
        for sig, payload in new:
            key = json.dumps(sig, sort_keys=True)
            if key not in seen:
                seen[key] = [sig, payload, 0]
            seen[key][2] += 1
        vi = 0
        for key, (sig, payload, n) in list(seen.items())[:50]:
            payload = dict(payload)
            payload["signature"] = sig
            payload["occurrences"] = n
            path = write_replay(self.pid, vi, payload)
            print("VIOLATION property=%s replay=%s" % (self.pid, path))
            print("   ", json.dumps(sig)[:400])
            vi += 1
        self.cov["exhaustive"] = bool(self.cov.get("exhaustive", False))
        ev = {"property_id": self.pid, "tier": self.tier, "seed": seed(), "level": self.level,
              "coverage": self.cov, "assumptions": self.assumptions,
              "wall_s": round(time.time() - self.t0, 1), "violations": len(seen),
              "known_findings_hit": sorted(known_hit.keys()), "notes": self.notes}
        os.makedirs(EVID, exist_ok=True)
        with open(os.path.join(EVID, self.pid + ".json"), "w") as f:
            json.dump(ev, f, indent=1)
        log("%s %s: %d events judged, %d new violation class(es), %d known; %.0fs" %
            (self.pid, self.tier, self.cov["traces_validated_against_impl"], len(seen), len(known_hit), time.time() - self.t0))
        return 1 if seen else 0
