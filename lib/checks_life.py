"""Life-cycle stage: TLC simulates behaviours of MC_Life (an item is declared, then a history of calls on a pool of variables),
each behaviour is replayed into a program compiled with the genuine proc-macro, Trace_Life validates the recorded history with state.
Used as an additional stage by the checks of the properties the calls belong to (C01 C02 C06 C07 C08 C10 C11 C18)."""
import json, os, random
import dxlib as dx
import lifefam as lf
from checks_run import run_modules

# which property a call speaks about
PROP_OF = {"eq": "C01", "pcmp": "C01", "cmp": "C01", "hash": "C06", "clone": "C07", "clone_from": "C07", "bin": "C08", "assign": "C08",
           "un": "C08", "debug": "C10", "debug_alt": "C10", "default": "C11", "deref_write": "C18", "deref_read": "C18", "set": None}


def behaviours(tier, ck, focus="any"):
    """the LIFE vectors of one simulation run (cached by spec hash and seed) + the exhaustive small model"""
    st, outp = dx.tlc_run("MC_Life", "MC_Life_bfs.cfg", "mc_life_bfs", workers=8, timeout=3000)
    if not st["ok"]:
        ck.violation({"kind": "model", "module": "MC_Life", "invariants": st["violated"]}, {"tlc_output": outp, "tail": open(outp).read()[-2000:]})
        return None
    ck.add_model(st)
    num = (400 if tier == "quick" else 6000) if focus == "any" else (120 if tier == "quick" else 1500)
    cfg = "MC_Life_sim.cfg" if focus == "any" else "MC_Life_sim_%s.cfg" % focus
    sim = "num=%d" % num
    st2, outp2 = dx.tlc_run("MC_Life", cfg, "mc_life_sim_%s_%s_%d" % (focus, tier, dx.seed()), workers=1, timeout=3000,
                            simulate=sim, extra=["-depth", "90", "-seed", str(dx.seed())])
    vecs = dx.parse_prints(open(outp2).read(), "LIFE")
    if len(vecs) < num // 2:
        raise dx.ToolError("MC_Life simulation printed %d behaviours (expected about %d): %s" % (len(vecs), num, outp2))
    ck.cov["transitions"] = ck.cov.get("transitions", 0) + st2.get("generated", 0)
    ck.notes["life_model"] = {"module": "MC_Life", "bfs_states": st.get("distinct"), "simulated_behaviours": len(vecs),
                              "simulated_states": st2.get("generated")}
    return vecs


def life_stage(ck, tier, props, transform=None, tag="life", coherent_only=False, focus="any", limit=None):
    """props: the properties whose calls are judged in this run (others are still executed: they move the state)"""
    vecs = behaviours(tier, ck, "any")
    if vecs is None:
        return
    if focus != "any":
        vecs = vecs + (behaviours(tier, ck, focus) or [])
    # keep the behaviours that contain a call of the wanted properties
    want = set(props)
    vecs = [v for v in vecs if any(PROP_OF.get(x["act"]) in want for x in v["hist"]) and (not coherent_only or v["L"]["mode"] == "coherent")]
    if limit:
        vecs = vecs[:limit]
    entries = ["attr", "derive", "split", "attr", "derive", "path2"]
    grnd = random.Random(dx.seed() + 11)
    mods, meta = [], []
    for i, v in enumerate(vecs):
        entry, order = entries[i % 6], (i // 3) % 2
        generic = i % 4 == 3          # one field of type G, instantiated with W: default bounds at work in a living program
        # syntactic guises: every second item is written with one or two spellings that mean the same
        g = grnd.sample(lf.GUISES, grnd.choice([1, 1, 2])) if i % 2 == 1 else []
        v["L"] = lf.with_names(v["L"], g, i)
        mods.append((i, lf.life_module(i, v["L"], v["hist"], entry, order, generic=generic, guise=g)))
        meta.append({"entry": entry, "order": order, "generic": generic, "guise": g})
    if transform:
        mods = transform(mods)
    res, failed = run_modules(mods, tag)
    events, back = [], []
    for i, v in enumerate(vecs):
        if i in failed or i not in res:
            events.append({"ev": "rustc_failed"})
            back.append((i, None))
            continue
        lines = sorted(res[i], key=lambda j: j["k"])
        if len(lines) != len(v["hist"]) + 1:
            raise dx.ToolError("driver of behaviour %d printed %d of %d steps" % (i, len(lines), len(v["hist"]) + 1))
        events.append({"ev": "life_reset", "L": v["L"], "post": lines[0]["post"]})
        back.append((i, 0))
        for k, x in enumerate(v["hist"], 1):
            j = lines[k]
            # calls of other properties are replayed for their effect on the state only: judged by their post-state alone
            events.append({"ev": "life", "x": x, "result": j["result"], "log": j["log"], "operands_ok": j["operands_ok"],
                           "panicked": False, "post": j["post"],
                           "judge": PROP_OF.get(x["act"]) in want and (not coherent_only or v["L"]["mode"] == "coherent")})
            back.append((i, k))
    n, bad, jst = dx.tlc_judge("Trace_Life", "Trace_Life.cfg", events, tag, chunk=3000, cut_before=lambda e: e["ev"] != "life")
    ck.add_judge(n, jst)
    for bi in bad:
        i, k = back[bi]
        v, e = vecs[i], events[bi]
        if e["ev"] == "rustc_failed":
            ck.violation({"kind": "life_rustc_failed", "D": v["L"]["D"], "item": v["L"]["kind"], "guise": "+".join(meta[i].get("guise") or []), "diags": json.dumps(failed.get(i))[:300]},
                         {"what": "an item every derived trait of which derive_ex must accept does not compile", "L": v["L"], "diags": failed.get(i),
                          "source": mods[i][1]})
            continue
        act = e["x"]["act"] if e["ev"] == "life" else "reset"
        ck.violation({"kind": "life", "act": act, "property_of_call": PROP_OF.get(act), "item": v["L"]["kind"], "D": v["L"]["D"],
                      "entry": meta[i]["entry"], "guise": "+".join(meta[i].get("guise") or [])},
                     {"what": "a call in a history on one derived type is not what DxLife prescribes in the state the history reached",
                      "L": v["L"], "history_up_to_here": v["hist"][:k], "step": k, "event": e, "source": mods[i][1]})
    ck.notes["life"] = {"behaviours_replayed": len(vecs), "calls_replayed": sum(1 for e in events if e["ev"] == "life"),
                        "calls_judged": {a: sum(1 for e in events if e["ev"] == "life" and e["judge"] and e["x"]["act"] == a) for a in sorted(PROP_OF)}}
    return len(events)
