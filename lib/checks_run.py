"""Checks of the run-time families: C07 (Clone), C08 (struct operators), C09 (impl operators)."""
import json, os, random, itertools
import dxlib as dx
import runfam as rf
from checks_cmp import compile_run_modules


def run_modules(mods, tag):
    """compile + run modules whose run() prints several json lines each; returns ({idx: [lines]}, failed)"""
    wd = os.path.join(dx.WORK, "run", "%s-%d" % (tag, os.getpid()))
    os.makedirs(wd, exist_ok=True)
    batch = max(1, min(40, -(-len(mods) // dx.NCPU)))
    batches = [mods[i:i + batch] for i in range(0, len(mods), batch)]
    out, failed = {}, {}

    def do(bi_ms):
        bi, ms = bi_ms
        res, bad = {}, {}
        ms = list(ms)
        for attempt in range(10):
            if not ms:
                break
            head = rf.HEAD
            lines = head.count("\n")
            starts, ids, body = [], [], head
            for idx, src in ms:
                starts.append(lines + 1)
                ids.append(idx)
                body += src + "\n"
                lines += src.count("\n") + 1
            body += "fn main() {\n    ::dx_support::quiet_panics();\n" + "".join("    print!(\"{}\", m%d::run());\n" % i for i in ids) + "}\n"
            ok, stdout, diags = dx.compile_and_run("r%d_%d" % (bi, attempt), body, wd)
            if ok:
                for l in stdout.splitlines():
                    if l.startswith("{"):
                        j = json.loads(l)
                        res.setdefault(j["id"], []).append(j)
                break
            import bisect
            culprits = {}
            for d in diags:
                if d.get("level") != "error":
                    continue
                code = (d.get("code") or {}).get("code")
                for sp in d.get("spans", []):
                    if sp.get("is_primary"):
                        mi = bisect.bisect_right(starts, sp["line_start"]) - 1
                        if 0 <= mi < len(ids):
                            culprits.setdefault(ids[mi], []).append({"code": code, "msg": d.get("message", "")[:200]})
            if not culprits:
                raise dx.ToolError("batch failed without a locatable error: %s" % json.dumps(dx.diag_summary(diags))[:1500])
            bad.update(culprits)
            ms = [(i, s) for (i, s) in ms if i not in culprits]
        return res, bad
    for res, bad in dx.pmap(do, list(enumerate(batches))):
        out.update(res)
        failed.update(bad)
    import shutil
    shutil.rmtree(wd, ignore_errors=True)
    return out, failed


# ------------------------------------------------------------------------------------------------
# C07
# ------------------------------------------------------------------------------------------------
def c07(tier):
    ck = dx.Check("C07", tier)
    st, outp = dx.tlc_run("MC_Clone", "MC_Clone.cfg", "mc_clone", workers=1)
    if not st["ok"]:
        ck.violation({"kind": "model", "invariants": st["violated"]}, {"tlc_output": outp, "tail": open(outp).read()[-2000:]})
        return ck.finish()
    ck.add_model(st)
    steps = dx.parse_prints(open(outp).read(), "STEP")
    ck.notes["model"] = {"module": "MC_Clone", "states": st.get("distinct"), "transitions_emitted": len(steps)}
    shapes = sorted(set(tuple(s["shape"]) for s in steps))
    # every shape in several concrete guises: tuple / named variants, both entry points, a generic instance
    guises = []
    for sh in shapes:
        masks = sorted(set([0, (1 << len(sh)) - 1, 0b0101 & ((1 << len(sh)) - 1)]))
        for mask in masks:
            for entry in ("attr", "derive"):
                for generic in ((False, True) if tier == "thorough" or mask == 0 else (False,)):
                    if generic and sum(sh) == 0:
                        continue          # a type parameter must be used by some field
                    guises.append((sh, mask, entry, generic))
    mods = [(i, rf.clone_module(i, list(g[0]), g[2], g[1], g[3])) for i, g in enumerate(guises)]
    # seeded histories (stateful validation of longer runs)
    rnd = random.Random(dx.seed())
    nh = 40 if tier == "quick" else 400
    hist = []
    for h in range(nh):
        sh = list(rnd.choice(shapes))
        nvals = len(rf.shape_values(sh))
        script = [("set", "a", rnd.randrange(nvals)), ("set", "b", rnd.randrange(nvals))]
        for _ in range(12):
            r = rnd.random()
            if r < 0.15:
                script.append(("set", rnd.choice("ab"), rnd.randrange(nvals)))
            else:
                d = rnd.choice("ab")
                script.append((rnd.choice(["clone", "clone_from"]), d, "b" if d == "a" else "a"))
        idx = len(mods)
        mods.append((idx, rf.clone_history_module(idx, sh, rnd.choice(["attr", "derive"]), rnd.randrange(1 << len(sh)), script)))
        hist.append((idx, sh, script))
    res, failed = run_modules(mods, "c07")
    events, meta = [], []
    for i, g in enumerate(guises):
        if i in failed or i not in res:
            events.append({"ev": "rustc_failed"})
            meta.append({"guise": g, "diags": failed.get(i)})
            continue
        table = {}
        for j in res[i]:
            table[(json.dumps(j["pre"], sort_keys=True), j["act"], j["d"], j["s"])] = j
        for s in steps:
            if tuple(s["shape"]) != g[0]:
                continue
            key = (json.dumps(s["pre"], sort_keys=True), s["act"], s["d"], s["s"])
            if key not in table:
                raise dx.ToolError("driver did not execute TLC transition %s" % (key,))
            j = table[key]
            events.append({"ev": "reset", "pool": s["pre"]})
            meta.append({"guise": g})
            events.append({"ev": s["act"], "d": s["d"], "s": s["s"], "log": j["log"], "post": j["post"]})
            meta.append({"guise": g, "pre": s["pre"]})
    for idx, sh, script in hist:
        if idx in failed or idx not in res:
            events.append({"ev": "rustc_failed"})
            meta.append({"guise": (tuple(sh), "history"), "diags": failed.get(idx)})
            continue
        for j in res[idx]:
            if j["act"] == "reset":
                events.append({"ev": "reset", "pool": j["post"]})
            else:
                events.append({"ev": j["act"], "d": j["d"], "s": j["s"], "log": j["log"], "post": j["post"]})
            meta.append({"guise": (tuple(sh), "history"), "script": script})
    n, bad, jst = dx.tlc_judge("Trace_Run", "Trace_Run.cfg", events, "c07")
    ck.add_judge(n, jst)
    for i in bad:
        e, m = events[i], meta[i]
        if e["ev"] == "rustc_failed":
            sig = {"kind": "rustc_failed", "shape": str(m["guise"][0])}
        else:
            same = None
            if "pre" in m:
                same = m["pre"][e["d"]]["v"] == m["pre"][e["s"]]["v"]
            sig = {"kind": e["ev"], "shape": str(list(m["guise"][0])), "same_variant": same,
                   "fields_of_source": len(e["post"][e["s"]]["f"]) if "post" in e else None}
        ck.violation(sig, {"what": "Clone / clone_from observation not explained by DxRun", "event": e, "meta": m})
    ck.sample({"shapes": [list(s) for s in shapes], "example_event": next((e for e in events if e["ev"] == "clone_from"), None)})
    ck.cov["evaluations"] = len(events)
    ck.cov["distinct_nontrivial"] = len(set(json.dumps(e, sort_keys=True) for e in events if e["ev"] != "reset"))
    ck.cov["rule"] = ("every transition of the MC_Clone state graph (all shapes, all ordered value pairs, clone and clone_from in both directions) replayed on "
                      "tuple/named/generic guises through both entry points, plus seeded 12-step histories validated with state")
    ck.cov["exhaustive"] = True
    return ck.finish()


# ------------------------------------------------------------------------------------------------
# C08
# ------------------------------------------------------------------------------------------------
def c08(tier):
    ck = dx.Check("C08", tier)
    st, outp = dx.tlc_run("MC_Ops", "MC_Ops.cfg", "mc_ops", workers=2)
    if not st["ok"]:
        ck.violation({"kind": "model", "invariants": st["violated"]}, {"tlc_output": outp, "tail": open(outp).read()[-2000:]})
        return ck.finish()
    ck.add_model(st)
    plans = dx.parse_prints(open(outp).read(), "PLAN")
    ck.notes["model"] = {"module": "MC_Ops", "states": st.get("distinct"), "plans": len(plans)}
    guises = []
    for n in range(0, 5):
        kinds = ["unit"] if n == 0 else ["tuple", "named"]
        for kind in kinds:
            for entry in ("attr", "derive"):
                for generic in ((False, True) if n in (1, 2) else (False,)):
                    if generic and kind == "unit":
                        continue
                    guises.append((n, kind, entry, generic))
    mods = [(i, rf.ops_module(i, g[0], g[1], g[2], generic=g[3])) for i, g in enumerate(guises)]
    res, failed = run_modules(mods, "c08")
    events, meta = [], []
    for i, g in enumerate(guises):
        if i not in res:
            events.append({"ev": "rustc_failed"})
            meta.append({"guise": g, "diags": failed.get(i)})
            continue
        seen = set()
        for j in res[i]:
            e = dict(j)
            e.pop("id")
            e["n"] = g[0]
            events.append(e)
            meta.append({"guise": g})
            seen.add((e["ev"], e["op"], bool(e.get("lref")), bool(e.get("rref"))))
        # completeness against TLC's plan list: every (kind of call, op, form) the model enumerated was executed
        for p in plans:
            if p["n"] == g[0] and (p["ev"], p["op"], bool(p.get("lref")), bool(p.get("rref"))) not in seen:
                raise dx.ToolError("driver did not execute plan %s" % p)
    n, bad, jst = dx.tlc_judge("Trace_Run", "Trace_Run.cfg", events, "c08", chunk=max(200, -(-len(events) // 8)))
    ck.add_judge(n, jst)
    for i in bad:
        e, m = events[i], meta[i]
        if e["ev"] == "rustc_failed":
            sig = {"kind": "rustc_failed", "guise": str(m["guise"]), "codes": ",".join(sorted(set(d.get("code") or "?" for d in (m.get("diags") or []))))}
        else:
            sig = {"kind": e["ev"], "op": e["op"], "lref": e.get("lref"), "rref": e.get("rref"), "fields": e["n"], "struct": m["guise"][1]}
        ck.violation(sig, {"what": "struct-derived operator: result / call log / operand state not explained by DxRun", "event": e, "guise": m["guise"],
                           "diags": m.get("diags")})
    ck.sample(next((e for e in events if e["ev"] == "binop" and e["n"] == 2), None))
    ck.sample(next((e for e in events if e["ev"] == "assignop" and e["n"] == 3), None))
    ck.cov["evaluations"] = len(events)
    ck.cov["distinct_nontrivial"] = len(set(json.dumps(e, sort_keys=True) for e in events))
    ck.cov["rule"] = "10 binary operators x 4 reference forms, 10 compound assignments x 2, Neg/Not x 2, on unit/tuple/named structs with 0..4 free-term-algebra fields (plus generic instances), both entry points"
    ck.cov["exhaustive"] = True
    return ck.finish()


# ------------------------------------------------------------------------------------------------
# C09
# ------------------------------------------------------------------------------------------------
def impl_forms_of(resp, op):
    """(binary forms, assign rhs forms) implemented in an expansion (the user's impl included), from the impl headers"""
    binf, asg = [], []
    for it in resp.get("items", []):
        if it["kind"] != "impl":
            continue
        l = "r" if it["self_ty"].startswith("&") else "v"
        r = "r" if it["trait_args"].startswith("&") else "v"
        if it["trait"] == "::core::ops::" + op:
            binf.append([l, r])
        elif it["trait"] == "::core::ops::" + op + "Assign":
            asg.append(r)
    return binf, asg


def c09(tier):
    ck = dx.Check("C09", tier)
    st, outp = dx.tlc_run("MC_Ops", "MC_Ops.cfg", "mc_ops", workers=2)
    if not st["ok"]:
        ck.violation({"kind": "model", "invariants": st["violated"]}, {"tlc_output": outp, "tail": open(outp).read()[-2000:]})
        return ck.finish()
    ck.add_model(st)
    cfgs = dx.parse_prints(open(outp).read(), "IMPLCFG")
    ck.notes["model"] = {"module": "MC_Ops", "states": st.get("distinct"), "impl_configs": len(cfgs)}
    ops = rf.BINOPS if tier == "thorough" else ["Add", "Sub", "Shl", "BitXor", "Rem"]
    mods, descs, reqs = [], [], []
    for op in ops:
        for c in cfgs:
            for rhs_self in (True, False):
                idx = len(mods)
                src, req, d = rf.implop_module(idx, op, (c["bl"], c["br"]), rhs_self, c["want_bin"], c["want_assign"], c["base_is_assign"])
                mods.append((idx, src))
                descs.append(d)
                reqs.append({"k": "expand", "id": idx, "entry": "attr", "attr": req["attr"], "item": req["item"]})
    resps = dx.expand(reqs)
    res, failed = run_modules(mods, "c09")
    events, meta = [], []
    for idx, d in enumerate(descs):
        r = resps[idx]
        if not d["base_is_assign"]:
            binf, asg = impl_forms_of(r, d["op"])
            events.append({"ev": "implforms", "base": d["base"], "want_bin": d["want_bin"], "want_assign": d["want_assign"],
                           "bin_forms": binf, "assign_forms": asg})
            meta.append({"desc": d, "idx": idx})
        if idx not in res and (d["want_bin"] or d["want_assign"]):
            events.append({"ev": "rustc_failed"})
            meta.append({"desc": d, "idx": idx, "diags": failed.get(idx)})
            continue
        for j in res.get(idx, []):
            e = dict(j)
            e.pop("id")
            e["base"] = d["base"]
            events.append(e)
            meta.append({"desc": d, "idx": idx})
    n, bad, jst = dx.tlc_judge("Trace_Run", "Trace_Run.cfg", events, "c09", chunk=max(200, -(-len(events) // 8)))
    ck.add_judge(n, jst)
    for i in bad:
        e, m = events[i], meta[i]
        d = m["desc"]
        sig = {"kind": e["ev"], "op": d["op"], "base": d["base"]["l"] + d["base"]["r"], "rhs_self": d["rhs_self"],
               "requested": ("Op" if d["want_bin"] else "") + ("+OpAssign" if d["want_assign"] else ""), "base_is_assign": d["base_is_assign"],
               "form": (e.get("form") or {}).get("l", "") + (e.get("form") or {}).get("r", "")}
        ck.violation(sig, {"what": "impl-derived operator: forms / call count / clone count / result not explained by DxRun", "event": e,
                           "source": mods[m["idx"]][1], "diags": m.get("diags")})
    ck.sample(next((e for e in events if e["ev"] == "implbin"), None))
    ck.sample(next((e for e in events if e["ev"] == "implassign"), None))
    ck.cov["evaluations"] = len(events)
    ck.cov["distinct_nontrivial"] = len(set(json.dumps(e, sort_keys=True) for e in events))
    ck.cov["rule"] = "operators x 4 base forms x Rhs in {Self, other type} x requested {Op},{OpAssign},{Op,OpAssign}, and base OpAssign<Rhs|&Rhs> with {Op}; every generated form called once with logging operands"
    ck.cov["exhaustive"] = True
    return ck.finish()
