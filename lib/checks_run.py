"""Checks of the run-time families: C07 (Clone), C08 (struct operators), C09 (impl operators)."""
import json, os, random, itertools, re
import dxlib as dx
import runfam as rf
from checks_cmp import compile_run_modules


def run_modules(mods, tag):
    """compile + run modules whose run() prints several json lines each; returns ({idx: [lines]}, failed)"""
    wd = os.path.join(dx.WORK, "run", "%s-%d" % (tag, os.getpid()))
    os.makedirs(wd, exist_ok=True)
    batch = max(1, min(40, -(-len(mods) // dx.NCPU)))
    batches = [mods[i:i + batch] for i in range(0, len(mods), batch)]
    out, failed = {}, {}

    def do(bi_ms):
        bi, ms = bi_ms
        res, bad = {}, {}
        ms = list(ms)
        for attempt in range(10):
            if not ms:
                break
            head = rf.HEAD
            lines = head.count("\n")
            starts, ids, body = [], [], head
            for idx, src in ms:
                starts.append(lines + 1)
                ids.append(idx)
                body += src + "\n"
                lines += src.count("\n") + 1
            # a panic inside derived code is data: the module is reported as failed (code PANIC), the others still run
            body += "fn main() {\n    ::dx_support::quiet_panics();\n" + "".join(
                "    match ::std::panic::catch_unwind(|| m%d::run()) { Ok(s) => print!(\"{}\", s), Err(_) => println!(\"{{\\\"id\\\":%d,\\\"panicked\\\":true}}\") }\n" % (i, i) for i in ids) + "}\n"
            ok, stdout, diags = dx.compile_and_run("r%d_%d" % (bi, attempt), body, wd)
            if ok:
                for l in stdout.splitlines():
                    if l.startswith("{"):
                        j = json.loads(l)
                        if j.get("panicked"):
                            bad[j["id"]] = [{"code": "PANIC", "msg": "the program panicked while the driver of this module was running"}]
                        else:
                            res.setdefault(j["id"], []).append(j)
                for i in bad:
                    res.pop(i, None)
                break
            import bisect
            culprits = {}
            for d in diags:
                if d.get("level") != "error":
                    continue
                code = (d.get("code") or {}).get("code")
                for sp in d.get("spans", []):
                    if sp.get("is_primary"):
                        mi = bisect.bisect_right(starts, sp["line_start"]) - 1
                        if 0 <= mi < len(ids):
                            culprits.setdefault(ids[mi], []).append({"code": code, "msg": d.get("message", "")[:200]})
            if not culprits:
                raise dx.ToolError("batch failed without a locatable error: %s" % json.dumps(dx.diag_summary(diags))[:1500])
            bad.update(culprits)
            ms = [(i, s) for (i, s) in ms if i not in culprits]
        return res, bad
    for res, bad in dx.pmap(do, list(enumerate(batches))):
        out.update(res)
        failed.update(bad)
    import shutil
    shutil.rmtree(wd, ignore_errors=True)
    return out, failed


# ------------------------------------------------------------------------------------------------
# C07
# ------------------------------------------------------------------------------------------------
def c07(tier, hook=None):
    ck = hook["ck"] if hook else dx.Check("C07", tier)
    T = (hook or {}).get("transform") or (lambda ms: ms)
    big = tier == "thorough" and not hook
    st, outp = dx.tlc_run("MC_Clone", "MC_Clone_large.cfg" if big else "MC_Clone.cfg", "mc_clone_large" if big else "mc_clone", workers=2 if big else 1)
    if not st["ok"]:
        ck.violation({"kind": "model", "invariants": st["violated"]}, {"tlc_output": outp, "tail": open(outp).read()[-2000:]})
        return ck.finish() if not hook else None
    ck.add_model(st)
    steps = dx.parse_prints(open(outp).read(), "STEP")
    ck.notes["model"] = {"module": "MC_Clone", "states": st.get("distinct"), "transitions_emitted": len(steps)}
    shapes = sorted(set(tuple(s["shape"]) for s in steps))
    # every shape in several concrete guises: tuple / named variants, both entry points, a generic instance
    guises = []
    for sh in shapes:
        masks = sorted(set([0, (1 << len(sh)) - 1, 0b0101 & ((1 << len(sh)) - 1)]))
        for mask in masks:
            for entry in ("attr", "derive"):
                for generic in ((False, True) if tier == "thorough" or mask == 0 else (False,)):
                    if generic and sum(sh) == 0:
                        continue          # a type parameter must be used by some field
                    guises.append((sh, mask, entry, generic, (), None))
        # Clone next to other derived traits / with bound(...) arguments: the Clone impl must not change
        for extra, bounds in ((("Copy",), None), (("Debug", "PartialEq"), None), ((), "shared_empty"), ((), "this_dd"), (("Copy",), "shared_dd"),
                              (("Eq", "PartialEq"), None), (("Ord", "PartialOrd", "Eq", "PartialEq", "Hash", "Debug"), None), (("Copy", "Eq", "PartialEq"), None)):
            for entry in (("attr", "derive") if tier == "thorough" else ("attr",)):
                guises.append((sh, masks[-1], entry, False, extra, bounds))
        # layout attributes on a struct of Copy, alignment-1 recording fields
        if len(sh) == 1 and sh[0] >= 1:
            for rp in ("packed", "C, packed", "C"):
                guises.append((sh, masks[-1], "attr", False, ("Copy",), None, False, rp))
        # explicit discriminants on every variant (primitive repr), tuple and named guises
        if len(sh) > 1:
            for mask in (0, (1 << len(sh)) - 1):
                guises.append((sh, mask, "attr" if mask else "derive", False, (), None, True))
    mods = [(i, rf.clone_module(i, list(g[0]), g[2], g[1], g[3], g[4], g[5], disc=(len(g) > 6 and g[6]), repr_=(g[7] if len(g) > 7 else None))) for i, g in enumerate(guises)]
    # seeded histories (stateful validation of longer runs)
    rnd = random.Random(dx.seed())
    nh = 40 if tier == "quick" else 10000
    hist = []
    for h in range(nh):
        sh = list(rnd.choice(shapes))
        nvals = len(rf.shape_values(sh))
        script = [("set", "a", rnd.randrange(nvals)), ("set", "b", rnd.randrange(nvals))]
        for _ in range(12):
            r = rnd.random()
            if r < 0.15:
                script.append(("set", rnd.choice("ab"), rnd.randrange(nvals)))
            else:
                d = rnd.choice("ab")
                script.append((rnd.choice(["clone", "clone_from"]), d, "b" if d == "a" else "a"))
        idx = len(mods)
        mods.append((idx, rf.clone_history_module(idx, sh, rnd.choice(["attr", "derive"]), rnd.randrange(1 << len(sh)), script)))
        hist.append((idx, sh, script))
    mods = T(mods)
    res, failed = run_modules(mods, "c07")
    events, meta = [], []
    for i, g in enumerate(guises):
        if i in failed or i not in res:
            events.append({"ev": "rustc_failed"})
            meta.append({"guise": g, "diags": failed.get(i)})
            continue
        table = {}
        for j in res[i]:
            table[(json.dumps(j["pre"], sort_keys=True), j["act"], j["d"], j["s"])] = j
        for s in steps:
            if tuple(s["shape"]) != g[0]:
                continue
            key = (json.dumps(s["pre"], sort_keys=True), s["act"], s["d"], s["s"])
            if key not in table:
                raise dx.ToolError("driver did not execute TLC transition %s" % (key,))
            j = table[key]
            events.append({"ev": "reset", "pool": s["pre"]})
            meta.append({"guise": g})
            events.append({"ev": s["act"], "d": s["d"], "s": s["s"], "log": j["log"], "post": j["post"]})
            meta.append({"guise": g, "pre": s["pre"]})
    for idx, sh, script in hist:
        if idx in failed or idx not in res:
            events.append({"ev": "rustc_failed"})
            meta.append({"guise": (tuple(sh), "history"), "diags": failed.get(idx)})
            continue
        for j in res[idx]:
            if j["act"] == "reset":
                events.append({"ev": "reset", "pool": j["post"]})
            else:
                events.append({"ev": j["act"], "d": j["d"], "s": j["s"], "log": j["log"], "post": j["post"]})
            meta.append({"guise": (tuple(sh), "history"), "script": script})
    # field TYPES of other syntactic forms (tuples, arrays, Option, Vec, Box of the recording type): one call of the field type's own
    # clone / clone_from per field, in order - judged against the same calls made directly
    if not hook:
        fmods, fmeta = [], []
        for kind in ("struct", "enum"):
            for forms in ([0], [1], [2], [3], [4], [5], [0, 6], [6, 1, 2], [3, 0], [5, 4, 6], [6] * 12, [0] * 11):
                for entry in ("attr", "derive"):
                    fmods.append((len(fmods), rf.clone_fieldwise_module(len(fmods), kind, forms, entry)))
                    fmeta.append((kind, forms, entry))
        # field names that differ only in leading underscores / a raw prefix / letter case
        for fn in (["_x", "x"], ["x", "_x", "x_"], ["r#type", "type_"], ["dx", "dX", "DX"], ["_0", "_1"]):
            for entry in ("attr", "derive"):
                fmods.append((len(fmods), rf.clone_fieldwise_module(len(fmods), "enum", [6] * len(fn), entry, fnames=fn)))
                fmeta.append(("enum", fn, entry))
        fres, ffailed = run_modules(fmods, "c07f")
        for i, fm in enumerate(fmeta):
            if i in fres:
                e = dict(fres[i][0])
                e.pop("id", None)
                events.append(e)
            else:
                events.append({"ev": "rustc_failed"})
            meta.append({"guise": (tuple(fm[1]), "field_forms:%s" % fm[0]), "diags": ffailed.get(i), "source": fmods[i][1]})
    n, bad, jst = dx.tlc_judge("Trace_Run", "Trace_Run.cfg", events, "c07")
    ck.add_judge(n, jst)
    for i in bad:
        e, m = events[i], meta[i]
        if e["ev"] == "clone_fieldwise":
            ck.violation({"kind": "clone_fieldwise", "guise": str(m["guise"]), "obs": {k: v for k, v in e.items() if k != "ev"}},
                         {"what": "derived clone / clone_from is not one call of the field type's own clone / clone_from per field", "event": e, "source": m.get("source")})
            continue
        if e["ev"] == "rustc_failed":
            sig = {"kind": "rustc_failed", "shape": str(m["guise"][0])}
        else:
            same = None
            if "pre" in m:
                same = m["pre"][e["d"]]["v"] == m["pre"][e["s"]]["v"]
            sig = {"kind": e["ev"], "shape": str(list(m["guise"][0])), "same_variant": same,
                   "fields_of_source": len(e["post"][e["s"]]["f"]) if "post" in e else None}
        ck.violation(sig, {"what": "Clone / clone_from observation not explained by DxRun", "event": e, "meta": m})
    ck.sample({"shapes": [list(s) for s in shapes], "example_event": next((e for e in events if e["ev"] == "clone_from"), None)})
    ck.cov["evaluations"] = len(events)
    ck.cov["distinct_nontrivial"] = len(set(json.dumps(e, sort_keys=True) for e in events if e["ev"] != "reset"))
    ck.cov["rule"] = ("every transition of the MC_Clone state graph (all shapes, all ordered value pairs, clone and clone_from in both directions) replayed on "
                      "tuple/named/generic guises through both entry points, plus seeded 12-step histories validated with state")
    ck.cov["exhaustive"] = True
    if not hook:
        # histories of calls on one derived type (MC_Life): this property's calls judged with state
        import checks_life
        checks_life.life_stage(ck, tier, ["C07"], tag="life_c07")
    return ck.finish() if not hook else None


# ------------------------------------------------------------------------------------------------
# C08
# ------------------------------------------------------------------------------------------------
def c08(tier, hook=None):
    ck = hook["ck"] if hook else dx.Check("C08", tier)
    T = (hook or {}).get("transform") or (lambda ms: ms)
    big = tier == "thorough" and not hook
    st, outp = dx.tlc_run("MC_Ops", "MC_Ops_large.cfg" if big else "MC_Ops.cfg", "mc_ops_large" if big else "mc_ops", workers=2)
    if not st["ok"]:
        ck.violation({"kind": "model", "invariants": st["violated"]}, {"tlc_output": outp, "tail": open(outp).read()[-2000:]})
        return ck.finish() if not hook else None
    ck.add_model(st)
    plans = dx.parse_prints(open(outp).read(), "PLAN")
    ck.notes["model"] = {"module": "MC_Ops", "states": st.get("distinct"), "plans": len(plans)}
    guises = []
    for n in range(0, 7 if big else 5):
        kinds = ["unit"] if n == 0 else ["tuple", "named"]
        for kind in kinds:
            for entry in ("attr", "derive"):
                for generic in ((False, True) if n in (1, 2) else (False,)):
                    if generic and kind == "unit":
                        continue
                    guises.append((n, kind, entry, generic, None))
    # field-less structs written `struct T {}` / `struct T();`
    for kind in ("tuple", "named"):
        for entry in ("attr", "derive"):
            guises.append((0, kind, entry, False, None))
    # more than ten fields: positions "10", "11" sort before "2" as text
    for (n, kind) in ((12, "tuple"), (11, "named")):
        for entry in ("attr", "derive"):
            guises.append((n, kind, entry, False, None))
    # explicit bound(...) arguments must not change what the operators compute
    for bounds in ("shared_empty", "this_dd", "this_empty", "field_empty"):
        for (n, kind) in ((2, "tuple"), (3, "named"), (1, "named")):
            guises.append((n, kind, "attr" if bounds != "this_dd" else "derive", False, bounds))
    # `Self` in the struct's own generics: inline bound / where-clause (the derived reference forms must expand it)
    for sb in ("inline", "where", "nested_inline", "nested_where"):
        for (n, kind) in ((1, "tuple"), (2, "named")):
            for entry in ("attr", "derive"):
                guises.append((n, kind, entry, True, None, sb))
    # layout attributes: the Copy / alignment-1 guise of the term algebra inside repr(C) / repr(packed) structs
    for rp in ("C", "packed", "C, packed", "packed(1)", "align(8)"):
        for (n, kind) in ((2, "tuple"), (3, "named")):
            guises.append((n, kind, "attr" if kind == "tuple" else "derive", False, None, None, "Tc", rp))
    guises.append((2, "named", "attr", False, None, None, "Tc", None))
    # named fields declared in non-alphabetical order; Default co-derived with an explicit value on the first field
    for (n, nm) in ((2, "rev"), (3, "rev"), (4, "mixed"), (3, "mixed")):
        guises.append((n, "named", "attr" if n % 2 else "derive", False, None, None, "Tm", None, nm, False))
    for (n, kind) in ((1, "tuple"), (2, "named"), (3, "tuple")):
        guises.append((n, kind, "attr" if n % 2 else "derive", False, None, None, "Tm", None, None, True))
    # sibling modules called `core` / `std` next to the struct (only absolute paths are safe); C13's own scopes bring theirs
    for (n, kind) in ((1, "tuple"), (2, "named")) if not hook else ():
        guises.append((n, kind, "attr" if n % 2 else "derive", False, None, None, "Tm", None, None, False, True))
    mods = [(i, rf.ops_module(i, g[0], g[1], g[2], generic=g[3], bounds=g[4], selfbound=(g[5] if len(g) > 5 else None),
                              leaf=(g[6] if len(g) > 6 else "Tm"), repr_=(g[7] if len(g) > 7 else None),
                              names=(g[8] if len(g) > 8 else None), with_default=(g[9] if len(g) > 9 else False),
                              shadow_core=(g[10] if len(g) > 10 else False))) for i, g in enumerate(guises)]
    macro_from = len(mods)
    if not hook:
        for frag in ("ident", "tt"):
            for entry in ("attr", "derive"):
                mods.append((len(mods), rf.ops_macro_module(len(mods), frag, entry)))
                guises.append((2, "macro_rules:" + frag, entry, False, None))
    mods = T(mods)
    res, failed = run_modules(mods, "c08")
    events, meta = [], []
    for i, g in enumerate(guises):
        if i not in res:
            events.append({"ev": "rustc_failed"})
            meta.append({"guise": g, "diags": failed.get(i)})
            continue
        if str(g[1]).startswith("macro_rules"):
            for j in res[i]:
                e = dict(j)
                e.pop("id")
                events.append(e)
                meta.append({"guise": g})
            continue
        seen = set()
        for j in res[i]:
            e = dict(j)
            e.pop("id")
            e["n"] = g[0]
            events.append(e)
            meta.append({"guise": g})
            seen.add((e["ev"], e["op"], bool(e.get("lref")), bool(e.get("rref"))))
        # completeness against TLC's plan list: every (kind of call, op, form) the model enumerated was executed
        for p in plans:
            if p["n"] == g[0] and (p["ev"], p["op"], bool(p.get("lref")), bool(p.get("rref"))) not in seen:
                raise dx.ToolError("driver did not execute plan %s" % p)
    n, bad, jst = dx.tlc_judge("Trace_Run", "Trace_Run.cfg", events, "c08", chunk=max(200, -(-len(events) // 8)))
    ck.add_judge(n, jst)
    for i in bad:
        e, m = events[i], meta[i]
        if e["ev"] == "rustc_failed":
            sig = {"kind": "rustc_failed", "guise": str(m["guise"]), "codes": ",".join(sorted(set(d.get("code") or "?" for d in (m.get("diags") or []))))}
        else:
            sig = {"kind": e["ev"], "op": e.get("op"), "lref": e.get("lref"), "rref": e.get("rref"), "fields": e.get("n"), "struct": m["guise"][1]}
        ck.violation(sig, {"what": "struct-derived operator: result / call log / operand state not explained by DxRun", "event": e, "guise": m["guise"],
                           "diags": m.get("diags")})
    ck.sample(next((e for e in events if e["ev"] == "binop" and e["n"] == 2), None))
    ck.sample(next((e for e in events if e["ev"] == "assignop" and e["n"] == 3), None))
    ck.cov["evaluations"] = len(events)
    ck.cov["distinct_nontrivial"] = len(set(json.dumps(e, sort_keys=True) for e in events))
    ck.cov["rule"] = "10 binary operators x 4 reference forms, 10 compound assignments x 2, Neg/Not x 2, on unit/tuple/named structs with 0..4 free-term-algebra fields (plus generic instances), both entry points"
    ck.cov["exhaustive"] = True
    if not hook:
        # histories of calls on one derived type (MC_Life): this property's calls judged with state
        import checks_life
        checks_life.life_stage(ck, tier, ["C08"], tag="life_c08", focus="ops")
    return ck.finish() if not hook else None


# ------------------------------------------------------------------------------------------------
# C09
# ------------------------------------------------------------------------------------------------
def impl_forms_of(resp, op):
    """(binary forms, assign rhs forms) implemented in an expansion (the user's impl included), from the impl headers"""
    binf, asg = [], []
    for it in resp.get("items", []):
        if it["kind"] != "impl":
            continue
        l = "r" if it["self_ty"].startswith("&") else "v"
        r = "r" if it["trait_args"].startswith("&") else "v"
        if it["trait_args"].replace(" ", "") == "Self":      # the user's own header may spell its right operand through `Self`
            r = l
        if it["trait"].split("::")[-1] == op:
            binf.append([l, r])
        elif it["trait"].split("::")[-1] == op + "Assign":
            asg.append(r)
    return binf, asg


def c09(tier, hook=None):
    ck = hook["ck"] if hook else dx.Check("C09", tier)
    T = (hook or {}).get("transform") or (lambda ms: ms)
    st, outp = dx.tlc_run("MC_Ops", "MC_Ops.cfg", "mc_ops", workers=2)
    if not st["ok"]:
        ck.violation({"kind": "model", "invariants": st["violated"]}, {"tlc_output": outp, "tail": open(outp).read()[-2000:]})
        return ck.finish() if not hook else None
    ck.add_model(st)
    cfgs = dx.parse_prints(open(outp).read(), "IMPLCFG")
    ck.notes["model"] = {"module": "MC_Ops", "states": st.get("distinct"), "impl_configs": len(cfgs)}
    ops = rf.BINOPS if tier == "thorough" else ["Add", "Sub", "Shl", "BitXor", "Rem"]
    mods, descs, reqs = [], [], []
    for op in ops:
        for c in cfgs:
            for rhs_self in (True, False):
                for generic in ((None, "where", "inline", "nested", "group") if ((op in ops[:2] or tier == "thorough") and not (hook or {}).get("renamed")) else (None,)):
                    if generic in ("nested", "group") and not (c["bl"] == "v" or c["base_is_assign"]):
                        continue          # (a reference self type with `Self` in the bounds is the open finding D15)
                    idx = len(mods)
                    src, req, d = rf.implop_module(idx, op, (c["bl"], c["br"]), rhs_self, c["want_bin"], c["want_assign"], c["base_is_assign"], generic=generic)
                    mods.append((idx, src))
                    descs.append(d)
                    reqs.append({"k": "expand", "id": idx, "entry": "attr", "attr": req["attr"], "item": req["item"]})
                    # the requested traits listed the other way round (`OpAssign, Op`)
                    if c["want_bin"] and c["want_assign"] and generic is None:
                        idx = len(mods)
                        src, req, d = rf.implop_module(idx, op, (c["bl"], c["br"]), rhs_self, True, True, c["base_is_assign"], assign_first=True)
                        d["assign_first"] = True
                        mods.append((idx, src))
                        descs.append(d)
                        reqs.append({"k": "expand", "id": idx, "entry": "attr", "attr": req["attr"], "item": req["item"]})
                    # one list per trait, stacked on the impl (the second one is expanded by rustc afterwards)
                    if c["want_bin"] and c["want_assign"] and generic is None and not c["base_is_assign"]:
                        idx = len(mods)
                        src, req, d = rf.implop_module(idx, op, (c["bl"], c["br"]), rhs_self, True, True, False, stacked=True)
                        d["stacked"] = True
                        d["skip_forms"] = True       # in-process only the first list is expanded
                        mods.append((idx, src))
                        descs.append(d)
                        reqs.append({"k": "expand", "id": idx, "entry": "attr", "attr": req["attr"], "item": req["item"]})
                    # a right operand type that is not Clone where no derived form needs it by value
                    if (not rhs_self) and c["br"] == "r" and generic is None and not c["base_is_assign"]:
                        idx = len(mods)
                        src, req, d = rf.implop_module(idx, op, (c["bl"], c["br"]), False, c["want_bin"], c["want_assign"], False, rhs_noclone=True)
                        d["rhs_noclone"] = True
                        mods.append((idx, src))
                        descs.append(d)
                        reqs.append({"k": "expand", "id": idx, "entry": "attr", "attr": req["attr"], "item": req["item"]})
                    # `Self` inside a projection in Output / where-clause
                    if not c["base_is_assign"] and generic is None and c["bl"] == "v":
                        idx = len(mods)
                        src, req, d = rf.implop_module(idx, op, (c["bl"], c["br"]), rhs_self, c["want_bin"], c["want_assign"], False, proj=True)
                        d["proj"] = True
                        mods.append((idx, src))
                        descs.append(d)
                        reqs.append({"k": "expand", "id": idx, "entry": "attr", "attr": req["attr"], "item": req["item"]})
                    # the same impl with its right operand spelled `Self` / `&Self` (where the self type allows it)
                    self_is_ref = c["bl"] == "r" and not c["base_is_assign"]
                    if rhs_self and generic is None and not (self_is_ref and c["br"] == "v"):
                        idx = len(mods)
                        src, req, d = rf.implop_module(idx, op, (c["bl"], c["br"]), True, c["want_bin"], c["want_assign"], c["base_is_assign"], spell_self=True)
                        d["spell_self"] = True
                        mods.append((idx, src))
                        descs.append(d)
                        reqs.append({"k": "expand", "id": idx, "entry": "attr", "attr": req["attr"], "item": req["item"]})
    # the user's operand types named like well-known (unsized) std types - user types all the same - in every seventh module
    if not hook:
        ren = [("Path", "CStr"), ("OsStr", "Path"), ("str_", "Ordering"), ("CStr", "OsStr")]
        for k in range(3, len(mods), 7):
            a, b = ren[(k // 7) % len(ren)]
            sub = lambda t: re.sub(r"\bRT\b", b, re.sub(r"\bLT\b", a, t))
            mods[k] = (mods[k][0], sub(mods[k][1]))
            reqs[k] = dict(reqs[k], item=sub(reqs[k]["item"]))
    resps = dx.expand(reqs)
    mods = T(mods)
    res, failed = run_modules(mods, "c09")
    events, meta = [], []
    for idx, d in enumerate(descs):
        r = resps[idx]
        if not d["base_is_assign"] and not d.get("skip_forms"):
            binf, asg = impl_forms_of(r, d["op"])
            events.append({"ev": "implforms", "base": d["base"], "want_bin": d["want_bin"], "want_assign": d["want_assign"],
                           "bin_forms": binf, "assign_forms": asg})
            meta.append({"desc": d, "idx": idx})
        if idx not in res and (d["want_bin"] or d["want_assign"]):
            events.append({"ev": "rustc_failed"})
            meta.append({"desc": d, "idx": idx, "diags": failed.get(idx)})
            continue
        for j in res.get(idx, []):
            e = dict(j)
            e.pop("id")
            e["base"] = d["base"]
            events.append(e)
            meta.append({"desc": d, "idx": idx})
    # unusual but legal user impls (named lifetimes on reference operands, `Self` inside tuples / arrays of Rhs and Output): whatever is
    # derived must compile, and the user's own and the derived forms must be usable
    if not hook:
        wd = os.path.join(dx.WORK, "c09sp-%d" % os.getpid())

        def sp(ix):
            i, spec = ix
            ok, out, diags = dx.compile_and_run("sp%d" % i, rf.impl_special_program(spec), wd)
            return ok, dx.diag_summary(diags)[:3]
        for spec, (ok, dg) in zip(rf.IMPL_SPECIALS, dx.pmap(sp, list(enumerate(rf.IMPL_SPECIALS)))):
            events.append({"ev": "impl_compiles", "rustc_ok": ok})
            meta.append({"special": spec[0], "diags": dg, "source": rf.impl_special_program(spec)})
        import shutil
        shutil.rmtree(wd, ignore_errors=True)
    n, bad, jst = dx.tlc_judge("Trace_Run", "Trace_Run.cfg", events, "c09", chunk=max(200, -(-len(events) // 8)))
    ck.add_judge(n, jst)
    for i in bad:
        e, m = events[i], meta[i]
        if "special" in m:
            ck.violation({"kind": "impl_special", "tag": m["special"], "codes": ",".join(sorted(set(d.get("code") or "?" for d in m["diags"])))},
                         {"what": "operators derived from an unusual but legal user impl do not compile / cannot be used", "source": m["source"], "diags": m["diags"]})
            continue
        d = m["desc"]
        sig = {"kind": e["ev"], "op": d["op"], "base": d["base"]["l"] + d["base"]["r"], "rhs_self": d["rhs_self"], "generic": d.get("generic", ""),
               "requested": ("Op" if d["want_bin"] else "") + ("+OpAssign" if d["want_assign"] else ""), "base_is_assign": d["base_is_assign"],
               "form": (e.get("form") or {}).get("l", "") + (e.get("form") or {}).get("r", "")}
        ck.violation(sig, {"what": "impl-derived operator: forms / call count / clone count / result not explained by DxRun", "event": e,
                           "source": mods[m["idx"]][1], "diags": m.get("diags")})
    ck.sample(next((e for e in events if e["ev"] == "implbin"), None))
    ck.sample(next((e for e in events if e["ev"] == "implassign"), None))
    ck.cov["evaluations"] = len(events)
    ck.cov["distinct_nontrivial"] = len(set(json.dumps(e, sort_keys=True) for e in events))
    ck.cov["rule"] = "operators x 4 base forms x Rhs in {Self, other type} x requested {Op},{OpAssign},{Op,OpAssign}, and base OpAssign<Rhs|&Rhs> with {Op}; every generated form called once with logging operands"
    ck.cov["exhaustive"] = True
    return ck.finish() if not hook else None


# ------------------------------------------------------------------------------------------------
# C10
# ------------------------------------------------------------------------------------------------
def debug_descs(tier, rnd):
    descs = []
    nleaf = len(rf.LEAF_TYPES)
    fid = [0]

    def fields(n, shape, dbgs, gen=False):
        out = []
        for j in range(n):
            fid[0] += 1
            out.append({"name": "f%d" % j, "ty": (fid[0] + j) % nleaf, "dbg": dbgs[j], "gen": False})
        return out
    # structs: unit, tuple / named with 0..3 fields, every subset ignored, each choice of transparent
    for shape in ("unit", "tuple", "named"):
        for n in ((0,) if shape == "unit" else (0, 1, 2, 3)):
            opts = [["none", "ignore"]] * n
            combos = list(itertools.product(*opts)) if n else [()]
            for dbgs in combos:
                descs.append({"kind": "struct", "variants": [{"name": "S%d" % len(descs), "shape": shape, "fields": fields(n, shape, dbgs)}]})
            for tpos in range(n):
                for others in (["none"] * n, ["ignore"] * n):
                    dbgs = list(others)
                    dbgs[tpos] = "transparent"
                    descs.append({"kind": "struct", "variants": [{"name": "S%d" % len(descs), "shape": shape, "fields": fields(n, shape, dbgs)}]})
    if tier == "thorough":
        # every assignment of {none, ignore, transparent} to up to 3 fields (two transparent ones are refused: handled in-process below)
        for shape in ("tuple", "named"):
            for n in (1, 2, 3):
                for dbgs in itertools.product(["none", "ignore", "transparent"], repeat=n):
                    if list(dbgs).count("transparent") == 1:
                        descs.append({"kind": "struct", "variants": [{"name": "S%d" % len(descs), "shape": shape, "fields": fields(n, shape, dbgs)}]})
    # enums mixing variant kinds
    for k in range(12 if tier == "quick" else 2500):
        vs = []
        for vi in range(rnd.choice([1, 2, 3, 4])):
            shape = rnd.choice(["unit", "tuple", "named"])
            n = 0 if shape == "unit" else rnd.choice([0, 1, 2, 3])
            dbgs = [rnd.choice(["none", "none", "ignore"]) for _ in range(n)]
            if n and rnd.random() < 0.25:
                dbgs[rnd.randrange(n)] = "transparent"
            vs.append({"name": "V%d" % vi, "shape": shape, "fields": fields(n, shape, dbgs)})
        descs.append({"kind": "enum", "variants": vs})
    # enum variants (tuple / named) with every subset of ignored fields: positions matter (a binding must not slide into an ignored slot)
    for shape in ("tuple", "named"):
        for n in (2, 3):
            for dbgs in itertools.product(["none", "ignore"], repeat=n):
                descs.append({"kind": "enum", "variants": [{"name": "U0", "shape": "unit", "fields": []},
                                                          {"name": "V1", "shape": shape, "fields": fields(n, shape, dbgs)}]})
    # structs generic over a possibly unsized last field (instantiated with sized types: every formatter flag must still reach it)
    for shape in ("tuple", "named"):
        for n in (1, 2, 3):
            fs = fields(n, shape, ["none"] * n)
            fs[-1]["gen"] = True
            descs.append({"kind": "struct", "generic": True, "maybe_unsized": True, "variants": [{"name": "S%d" % len(descs), "shape": shape, "fields": fs}]})
            fs2 = fields(n, shape, ["none"] * (n - 1) + ["transparent"])
            fs2[-1]["gen"] = True
            descs.append({"kind": "struct", "generic": True, "maybe_unsized": True, "variants": [{"name": "S%d" % len(descs), "shape": shape, "fields": fs2}]})
    # one field carrying BOTH transparent and ignore (transparent is unconditional), alone and next to others
    for shape in ("tuple", "named"):
        for n in (1, 2, 3):
            for pos in range(n):
                for others in ("none", "ignore"):
                    dbgs = [others] * n
                    dbgs[pos] = "both"
                    descs.append({"kind": "struct", "variants": [{"name": "S%d" % len(descs), "shape": shape, "fields": fields(n, shape, dbgs)}]})
                    descs.append({"kind": "enum", "variants": [{"name": "U0", "shape": "unit", "fields": []}, {"name": "V1", "shape": shape, "fields": fields(n, shape, dbgs)}]})
    # several variants that each delegate to a transparent field at the SAME position / name, of different types and next to different
    # other fields (their arms have nothing in common but the binding's name)
    for shape in ("tuple", "named"):
        descs.append({"kind": "enum", "variants": [{"name": "V0", "shape": shape, "fields": fields(1, shape, ["transparent"])},
                                                  {"name": "V1", "shape": shape, "fields": fields(1, shape, ["transparent"])},
                                                  {"name": "V2", "shape": shape, "fields": fields(2, shape, ["transparent", "none"])},
                                                  {"name": "V3", "shape": shape, "fields": fields(2, shape, ["transparent", "ignore"])},
                                                  {"name": "V4", "shape": shape, "fields": fields(3, shape, ["none", "transparent", "none"])},
                                                  {"name": "V5", "shape": shape, "fields": fields(3, shape, ["ignore", "transparent", "none"])},
                                                  {"name": "U6", "shape": "unit", "fields": []}]})
    # names that are keywords (written as raw identifiers; printed without `r#` like the standard derive does)
    kw = {"kind": "enum", "variants": [{"name": "match", "shape": "unit", "fields": []}, {"name": "loop", "shape": "tuple", "fields": fields(1, "tuple", ["none"])},
                                        {"name": "fn", "shape": "named", "fields": fields(2, "named", ["none", "ignore"])}, {"name": "V3", "shape": "named", "fields": fields(1, "named", ["none"])}]}
    kw["variants"][2]["fields"][0]["name"] = "if"
    kw["variants"][3]["fields"][0]["name"] = "type"
    descs.append(kw)
    ks = {"kind": "struct", "variants": [{"name": "S%d" % len(descs), "shape": "named", "fields": fields(2, "named", ["none", "none"])}]}
    ks["variants"][0]["fields"][0]["name"] = "while"
    ks["variants"][0]["fields"][1]["name"] = "r"
    descs.append(ks)
    descs.append({"kind": "enum", "variants": [{"name": "type", "shape": "unit", "fields": []}, {"name": "match", "shape": "unit", "fields": []}, {"name": "Plain", "shape": "unit", "fields": []}]})
    # field-less enums (std prints the bare name)
    descs.append({"kind": "enum", "variants": [{"name": "Red", "shape": "unit", "fields": []}, {"name": "Green", "shape": "unit", "fields": []}]})
    return descs


def c10(tier, hook=None):
    ck = hook["ck"] if hook else dx.Check("C10", tier)
    T = (hook or {}).get("transform") or (lambda ms: ms)
    st, outp = dx.tlc_run("MC_Debug", "MC_Debug.cfg", "mc_debug", workers=4)
    if not st["ok"]:
        ck.violation({"kind": "model", "invariants": st["violated"]}, {"tlc_output": outp, "tail": open(outp).read()[-2000:]})
        return ck.finish() if not hook else None
    ck.add_model(st)
    ck.notes["model"] = {"module": "MC_Debug", "states": st.get("distinct")}
    rnd = random.Random(dx.seed())
    descs = debug_descs(tier, rnd)
    mods, meta = [], []
    for d in descs:
        for entry in ("attr", "derive"):
            idx = len(mods)
            mods.append((idx, rf.debug_module(idx, d, entry, rnd)))
            meta.append((d, entry))
    # explicit bound(...) arguments (the types are concrete, so they cannot matter): the output must not change
    brnd = random.Random(dx.seed() + 9)
    for k, d in enumerate(descs):
        if d.get("generic") or (tier == "quick" and k % 3):
            continue
        b = ["this_empty", "shared_empty", "field_helper", "this_dd"][k % 4]
        idx = len(mods)
        entry = brnd.choice(["attr", "derive"])
        mods.append((idx, rf.debug_module(idx, d, entry, rnd, bounds=b)))
        meta.append((d, entry))
    macro_ids = []
    if not hook:
        for frag in ("ty", "tt"):
            for entry in ("attr", "derive"):
                idx = len(mods)
                mods.append((idx, rf.debug_macro_module(idx, frag, entry)))
                meta.append(({"kind": "macro_rules", "frag": frag}, entry))
                macro_ids.append(idx)
    mods = T(mods)
    res, failed = run_modules(mods, "c10")
    events, emeta = [], []
    for idx, (d, entry) in enumerate(meta):
        if idx not in res:
            events.append({"ev": "rustc_failed"})
            emeta.append({"desc": d, "entry": entry, "diags": failed.get(idx), "idx": idx})
            continue
        for j in res[idx]:
            e = dict(j)
            e.pop("id")
            e["check_render"] = not (hook or {}).get("renamed", False)
            events.append(e)
            emeta.append({"desc": d, "entry": entry, "idx": idx})
    # rejection: more than one transparent field (in-process class)
    rej = []
    for shape in ("tuple", "named"):
        for n in (2, 3):
            fs = ", ".join(("#[debug(transparent)] " + ("f%d: " % j if shape == "named" else "") + "u8") for j in range(n))
            body = ("{ %s }" % fs) if shape == "named" else ("( %s );" % fs)
            rej.append(("struct", "struct X %s" % body, n))
            rej.append(("enum", "enum X { A, B %s }" % (body.rstrip(";")), n))
    rr = dx.expand([{"k": "expand", "id": i, "entry": "attr", "attr": "Debug", "item": s} for i, (_, s, _) in enumerate(rej)])
    for (kind, s, n), r in zip(rej, rr):
        rejected = r.get("class") == "compile_error" and not any(i["kind"] == "impl" for i in r["items"])
        events.append({"ev": "debug", "name": "X", "named": False, "fields": [{"name": "", "dbg": "transparent", "leaf": "", "alt": [""]}] * n,
                       "plain": "", "alt": [""], "twin_equal": True, "diff": "", "rejected": rejected, "check_render": True})
        emeta.append({"desc": s, "entry": "attr", "idx": None})
    # last field = a wrapper with several type arguments, the last of which may be unsized
    if not hook:
        wmods = [(900000 + k, rf.debug_wrapped_tail_module(900000 + k, entry)) for k, entry in enumerate(("attr", "derive"))]
        wmods += [(900010 + k, rf.debug_ignored_before_tail_module(900010 + k, entry)) for k, entry in enumerate(("attr", "derive"))]
        wres, wfailed = run_modules(wmods, "c10w")
        for wi, wsrc in wmods:
            events.append({"ev": "same_as_twin", "equal": wres[wi][0]["equal"]} if wi in wres else {"ev": "rustc_failed"})
            emeta.append({"desc": {"frag": "wrapped_unsized_tail", "kind": "struct"}, "entry": "attr", "idx": None, "diags": wfailed.get(wi), "wsrc": wsrc})
    n, bad, jst = dx.tlc_judge("Trace_Run", "Trace_Run.cfg", events, "c10", chunk=max(200, -(-len(events) // 8)))
    ck.add_judge(n, jst)
    for i in bad:
        e, m = events[i], emeta[i]
        if "wsrc" in m:
            ck.violation({"kind": "wrapped_unsized_tail", "ev": e["ev"], "codes": ",".join(sorted(set(d.get("code") or "?" for d in (m.get("diags") or []))))},
                         {"what": "Debug of a struct whose last field is a wrapper with a possibly unsized last type argument", "event": e, "source": m["wsrc"], "diags": m.get("diags")})
            continue
        if e["ev"] == "rustc_failed":
            sig = {"kind": "rustc_failed", "codes": ",".join(sorted(set(d.get("code") or "?" for d in (m.get("diags") or []))))}
        elif e["ev"] == "same_as_twin":
            sig = {"kind": "macro_rules_item", "frag": m["desc"].get("frag")}
        else:
            dbgs = sorted(set(f["dbg"] for f in e["fields"]))
            sig = {"kind": "debug", "named": e["named"], "nfields": len(e["fields"]), "dbg": "+".join(dbgs), "twin_equal": e["twin_equal"],
                   "item": m["desc"]["kind"] if isinstance(m["desc"], dict) else "reject"}
        ck.violation(sig, {"what": "Debug output differs from the std derive minus ignored fields / transparent rule", "event": e,
                           "source": mods[m["idx"]][1] if m.get("idx") is not None else m["desc"], "diags": m.get("diags")})
    ck.sample(next((e for e in events if e["ev"] == "debug" and len(e["fields"]) == 2), None))
    ck.cov["evaluations"] = len(events) * len(rf.FLAGS)
    ck.cov["distinct_nontrivial"] = len(set(json.dumps(e, sort_keys=True) for e in events))
    ck.cov["rule"] = "unit/tuple/named structs with 0..3 fields x every subset ignored x each transparent choice, random enums mixing variant kinds, %d format specs, leaf types incl. nested derived struct, float, str, Option, tuple, Vec; both entry points; second oracle: std-derived twin" % len(rf.FLAGS)
    ck.cov["exhaustive"] = False
    if not hook:
        # histories of calls on one derived type (MC_Life): this property's calls judged with state
        import checks_life
        checks_life.life_stage(ck, tier, ["C10"], tag="life_c10")
    return ck.finish() if not hook else None


# ------------------------------------------------------------------------------------------------
# C11
# ------------------------------------------------------------------------------------------------
def default_descs(tier, rnd):
    kinds = ["none", "str", "empty_str", "path", "assoc_path", "into_path", "qself_path", "turbofish_path", "own_assoc_path", "call", "block", "method", "int", "neg", "bytes"]
    out = []

    def flds(n, choice=None):
        return [{"dv": (choice[j] if choice else rnd.choice(kinds)), "underscore": rnd.random() < 0.3} for j in range(n)]
    # structs: every expression kind on a field, positions, shapes
    for shape in ("tuple", "named"):
        for k in kinds:
            for n in (1, 2, 3):
                for pos in range(n):
                    ch = ["none"] * n
                    ch[pos] = k
                    out.append({"kind": "struct", "tv": "none", "variants": [{"shape": shape, "dmark": False, "vv": "none", "fields": flds(n, ch)}]})
    out.append({"kind": "struct", "tv": "none", "variants": [{"shape": "unit", "dmark": False, "vv": "none", "fields": []}]})
    for tv in ("call", "path"):
        for shape in ("tuple", "named", "unit"):
            n = 0 if shape == "unit" else 2
            out.append({"kind": "struct", "tv": tv, "variants": [{"shape": shape, "dmark": False, "vv": "none", "fields": flds(n)}]})
    # enums: all choices of default variant(s), single-variant rule, type-level value, value on a variant
    for nv in (1, 2, 3):
        for marks in itertools.product((False, True), repeat=nv):
            for tv in ("none", "call", "path"):
                for vvpos in ([None] + list(range(nv)) if tv == "none" else [None]):
                    vs = []
                    for vi in range(nv):
                        shape = ["unit", "tuple", "named"][(vi + nv) % 3]
                        n = 0 if shape == "unit" else 1 + (vi % 2)
                        # a value written on a variant's #[default(..)] is itself a #[default] marker
                        vs.append({"shape": shape, "dmark": marks[vi] or vvpos == vi, "vv": "call" if vvpos == vi else "none", "fields": flds(n)})
                    out.append({"kind": "enum", "tv": tv, "variants": vs})
    # the default variant written `B()` / `A {}` (no fields, but not a unit variant); also as the only variant
    for shape in ("tuple", "named"):
        out.append({"kind": "enum", "tv": "none", "variants": [{"shape": "unit", "dmark": False, "vv": "none", "fields": []},
                                                                {"shape": shape, "dmark": True, "vv": "none", "fields": []}]})
        out.append({"kind": "enum", "tv": "none", "variants": [{"shape": shape, "dmark": False, "vv": "none", "fields": []}]})
        out.append({"kind": "struct", "tv": "none", "variants": [{"shape": shape, "dmark": False, "vv": "none", "fields": []}]})
    return out


def c11(tier, hook=None):
    ck = hook["ck"] if hook else dx.Check("C11", tier)
    T = (hook or {}).get("transform") or (lambda ms: ms)
    st, outp = dx.tlc_run("MC_Default", "MC_Default.cfg", "mc_default", workers=4)
    if not st["ok"]:
        ck.violation({"kind": "model", "invariants": st["violated"]}, {"tlc_output": outp, "tail": open(outp).read()[-2000:]})
        return ck.finish() if not hook else None
    ck.add_model(st)
    ck.notes["model"] = {"module": "MC_Default", "states": st.get("distinct")}
    rnd = random.Random(dx.seed())
    descs = default_descs(tier, rnd)
    if tier == "thorough":
        for s in range(12):
            descs += default_descs(tier, random.Random(dx.seed() * 77 + s))
    # in-process: which are rejected by derive_ex itself
    cases = []
    for P in descs:
        for entry in ("attr", "derive"):
            cases.append((P, entry, None))
    # explicit bound(...) arguments (on a non-generic type they cannot matter): the returned value must not change
    brnd = random.Random(dx.seed() + 5)
    for P in descs:
        if brnd.random() < (0.25 if tier == "quick" else 1.0):
            b = brnd.choice(["this_empty", "shared_empty", "this_dd", "field", "type_helper"])
            if b == "type_helper" and (P["tv"] != "none" or P["kind"] == "enum"):
                b = "this_empty"
            cases.append((P, brnd.choice(["attr", "derive"]), b))
    reqs = []
    srcs = []
    for i, (P, entry, bnd) in enumerate(cases):
        src = rf.default_module(i, P, "attr", bounds=bnd)
        m = re.search(r"#\[::derive_ex::derive_ex\(([^\]]*)\)\] (.*)", src)
        dargs, item = m.group(1), m.group(2)
        srcs.append(item)
        if entry == "attr":
            reqs.append({"k": "expand", "id": i, "entry": "attr", "attr": dargs, "item": item})
        else:
            reqs.append({"k": "expand", "id": i, "entry": "derive", "attr": "", "item": "#[derive_ex(%s)] %s" % (dargs, item)})
    resps = dx.expand(reqs)
    mods, midx = [], {}
    for i, ((P, entry, bnd), r) in enumerate(zip(cases, resps)):
        rejected = r.get("class") == "compile_error" and not any(x["kind"] == "impl" for x in r["items"])
        if not rejected:
            mods.append((i, rf.default_module(i, P, entry, bounds=bnd)))
    # default values that contain an `expr` fragment of a macro_rules! macro keep the fragment's grouping
    frag0 = len(cases) + 10
    fmods = [(frag0 + k, rf.default_fragment_module(frag0 + k, entry)) for k, entry in enumerate(("attr", "derive"))] if not hook else []
    # ... and default expressions that call functions named like earlier fields keep meaning the user's functions
    fmods += [(frag0 + 2 + k, rf.default_shadow_module(frag0 + 2 + k, entry)) for k, entry in enumerate(("attr", "derive"))] if not hook else []
    mods = T(mods + fmods)
    res, failed = run_modules(mods, "c11")
    events, emeta = [], []
    for fi, _src in fmods:
        if fi in res:
            j = res[fi][0]
            events.append({"ev": "same_as_twin", "equal": j["equal"], "got": j.get("got"), "want": j.get("want")})
        else:
            events.append({"ev": "rustc_failed"})
        emeta.append({"P": {"kind": "macro_fragment", "tv": "none", "variants": []}, "entry": "attr", "idx": fi, "diags": failed.get(fi), "bounds": None, "fragment": _src})
    for i, ((P, entry, bnd), r) in enumerate(zip(cases, resps)):
        rejected = r.get("class") == "compile_error" and not any(x["kind"] == "impl" for x in r["items"])
        if rejected:
            events.append({"ev": "default", "P": P, "rejected": True, "variant": 0, "prov": []})
        elif i in res:
            j = res[i][0]
            events.append({"ev": "default", "P": P, "rejected": False, "variant": j["variant"], "prov": j["prov"]})
        else:
            events.append({"ev": "rustc_failed"})
        emeta.append({"P": P, "entry": entry, "idx": i, "diags": failed.get(i), "bounds": bnd})
    n, bad, jst = dx.tlc_judge("Trace_Run", "Trace_Run.cfg", events, "c11", chunk=max(200, -(-len(events) // 8)))
    ck.add_judge(n, jst)
    for i in bad:
        e, m = events[i], emeta[i]
        P = m["P"]
        dvs = sorted(set(f["dv"] for v in P["variants"] for f in v["fields"]))
        sig = {"kind": e["ev"], "item": P["kind"], "tv": P["tv"], "marks": [v["dmark"] for v in P["variants"]], "vv": [v["vv"] for v in P["variants"]],
               "rejected": e.get("rejected"), "dv": "+".join(dvs) if e["ev"] == "rustc_failed" else None, "bounds": m.get("bounds"),
               "codes": ",".join(sorted(set(d.get("code") or "?" for d in (m.get("diags") or []))))}
        if "fragment" in m:
            ck.violation({"kind": "default_value_with_macro_fragment", "equal": e.get("equal"), "got": e.get("got")},
                         {"what": "a default value written by the user (an `expr` fragment of a macro_rules! macro inside it / a call of a function named like an earlier field) does not mean what the user wrote", "event": e, "source": m["fragment"], "diags": m.get("diags")})
            continue
        ck.violation(sig, {"what": "default() differs from the documented value / rejection rule", "event": e, "source": rf.default_module(m["idx"], P, m["entry"], bounds=m.get("bounds")),
                           "diags": m.get("diags")})
    ck.sample(next((e for e in events if e["ev"] == "default" and not e["rejected"] and len(e["prov"]) >= 2), None))
    ck.cov["evaluations"] = len(events)
    ck.cov["distinct_nontrivial"] = len(set(json.dumps(e, sort_keys=True) for e in events))
    ck.cov["rule"] = "structs: every #[default(expr)] kind x position x shape; enums: every marking of 1..3 variants x type-level value x value on a variant; provenance-recording field type; both entry points"
    ck.cov["exhaustive"] = False
    if not hook:
        # histories of calls on one derived type (MC_Life): this property's calls judged with state
        import checks_life
        checks_life.life_stage(ck, tier, ["C11"], tag="life_c11")
    return ck.finish() if not hook else None


# ------------------------------------------------------------------------------------------------
# C18
# ------------------------------------------------------------------------------------------------
def c18(tier, hook=None):
    ck = hook["ck"] if hook else dx.Check("C18", tier)
    T = (hook or {}).get("transform") or (lambda ms: ms)
    cases = []
    for named in (False, True):
        for ti in range(len(rf.DEREF_TYPES)):
            for generic in (False, True):
                for entry in ("attr", "derive"):
                    for where in ((False, True) if generic else (False,)):
                        cases.append((named, ti, generic, entry, where))
    mods = [(i, rf.deref_module(i, *c)) for i, c in enumerate(cases)]
    # explicit bound(...) arguments (the struct's own where-clause is always retained)
    for named in (False, True):
        for bounds in ("this_empty", "shared_empty", "this_dd", "this_pred"):
            for where in (False, True):
                for entry in ("attr", "derive"):
                    cases.append((named, 0, True, entry, where, bounds))
                    mods.append((len(cases) - 1, rf.deref_module(len(cases) - 1, named, 0, True, entry, where, bounds)))
    # the two traits requested by two stacked, path-spelled attribute-macro invocations
    for named in (False, True):
        for generic in (False, True):
            for bounds in (None, "shared_empty"):
                cases.append((named, 0, generic, "path2", generic, bounds))
                mods.append((len(cases) - 1, rf.deref_module(len(cases) - 1, named, 0, generic, "path2", generic, bounds)))
    # defaulted generic parameters; layout attributes on a single field that can never be misaligned
    for named in (False, True) if not hook else ():
        for entry in ("attr", "derive"):
            cases.append((named, 0, True, entry, "default"))
            mods.append((len(cases) - 1, rf.deref_module(len(cases) - 1, named, 0, True, entry, "default")))
        for rp, ti in (("packed", 2), ("C, packed", 2), ("packed(1)", 2), ("C", 0), ("transparent", 1), ("align(8)", 0)):
            cases.append((named, ti, False, "attr" if named else "derive", False, None, rp))
            mods.append((len(cases) - 1, rf.deref_module(len(cases) - 1, named, ti, False, "attr" if named else "derive", False, None, rp)))
    # field names of other lexical kinds: raw keywords (`r#type` must stay raw in `self.r#type`), a name the generator uses itself
    for fnm in ("r#type", "r#fn", "r#match", "r#box", "r#self_", "__self", "target", "deref") if not hook else ():
        for generic in (False, True):
            for entry in ("attr", "derive"):
                cases.append((fnm, 1 if not generic else 0, generic, entry, generic))
                mods.append((len(cases) - 1, rf.deref_module(len(cases) - 1, fnm, 1 if not generic else 0, generic, entry, generic)))
    # the struct produced by a macro_rules! macro, the field type handed in as an `ident` / `tt` fragment (real spans and hygiene)
    for frag in ("ident", "tt"):
        for entry in ("attr", "derive"):
            cases.append(("via_macro_rules", frag, entry))
            mods.append((len(cases) - 1, rf.deref_macro_module(len(cases) - 1, frag, entry)))
    # generic single-field structs whose field type mentions `Self`
    for entry in ("attr", "derive"):
        cases.append(("self_in_field_type", entry))
        mods.append((len(cases) - 1, rf.deref_self_module(len(cases) - 1, entry)))
    mods = T(mods)
    res, failed = run_modules(mods, "c18")
    events, emeta = [], []
    for i, c in enumerate(cases):
        if i in res:
            j = dict(res[i][0])
            j.pop("id")
            j.update({"ev": "deref", "nfields": 1, "rejected": False})
            events.append(j)
        else:
            events.append({"ev": "rustc_failed"})
        emeta.append({"case": c, "diags": failed.get(i), "idx": i})
    # rejection for 0 and 2..4 fields, each trait alone and both
    rej = []
    for n in (0, 1, 2, 3, 4):
        for shape in ("tuple", "named", "unit"):
            if (shape == "unit") != (n == 0) and shape == "unit":
                continue
            for traits in (["Deref"], ["DerefMut"], ["Deref", "DerefMut"]):
                if shape == "unit":
                    item = "struct X;"
                elif shape == "named":
                    item = "struct X { %s }" % ", ".join("f%d: u8" % j for j in range(n))
                else:
                    item = "struct X(%s);" % ", ".join("u8" for j in range(n))
                rej.append((n, traits, item))
                # a field-level derive_ex entry for the trait must not turn a multi-field struct into an accepted one
                if n >= 2 and shape != "unit":
                    for pos in (0, n - 1):
                        nested = "#[derive_ex(%s(bound()))] " % traits[0]
                        if shape == "named":
                            it2 = "struct X { %s }" % ", ".join((nested if j == pos else "") + "f%d: u8" % j for j in range(n))
                        else:
                            it2 = "struct X(%s);" % ", ".join((nested if j == pos else "") + "u8" for j in range(n))
                        rej.append((n, traits, it2))
                    # neither may a helper attribute of a co-derived trait single out "the" field
                    for pos in (0, n - 1):
                        for co, mark in (("Debug", "#[debug(transparent)] "), ("Debug", "#[debug(ignore)] "), ("Default", "#[default(1)] "), ("Clone", "")):
                            if shape == "named":
                                it3 = "struct X { %s }" % ", ".join((mark if j == pos else "") + "f%d: u8" % j for j in range(n))
                            else:
                                it3 = "struct X(%s);" % ", ".join((mark if j == pos else "") + "u8" for j in range(n))
                            rej.append((n, [co] + traits if pos == 0 else traits + [co], it3))
    # marker fields do not make a struct a newtype
    for traits in (["Deref"], ["DerefMut"], ["Deref", "DerefMut"]):
        for it in ("struct X<T>(u32, ::core::marker::PhantomData<T>);", "struct X<T> { tag: ::core::marker::PhantomData<T>, v: u32, tag2: ::core::marker::PhantomData<T> }",
                   "struct X<T>(::core::marker::PhantomData<T>, ::core::marker::PhantomData<T>);", "struct X(u8, ());"):
            rej.append((2, traits, it))
    rr = dx.expand([{"k": "expand", "id": i, "entry": "attr" if i % 2 == 0 else "derive", "attr": ", ".join(t) if i % 2 == 0 else "",
                     "item": it if i % 2 == 0 else "#[derive_ex(%s)] %s" % (", ".join(t), it)} for i, (n, t, it) in enumerate(rej)])
    for (nf, traits, item), r in zip(rej, rr):
        dtraits = [t for t in traits if t in ("Deref", "DerefMut")]
        nimpl = sum(1 for x in r.get("items", []) if x["kind"] == "impl" and (x.get("trait") or "").split("::")[-1] in ("Deref", "DerefMut"))
        nerr = sum(1 for x in r.get("items", []) if x["kind"] == "compile_error")
        # every requested Deref / DerefMut must be refused (arity != 1) or generated (arity 1); co-derived traits are not looked at
        rejected = nimpl == 0 and nerr >= len(dtraits)
        accepted = nimpl == len(dtraits) and nerr == 0
        events.append({"ev": "deref", "nfields": nf, "rejected": rejected if (rejected or accepted) else (nf == 1),
                       "same_address": True, "target_is_field_type": True, "mut_same_address": True, "write_lands": True})
        emeta.append({"case": (nf, traits, item), "idx": None})
    # DerefMut derived next to a HAND-WRITTEN Deref whose Target is not the field type: the derived impl must name the field type
    # (and is therefore refused by rustc), it must not follow whatever Target says
    pinned = []
    for fty, tgt, body in (("::std::boxed::Box<u8>", "u8", "&self.0"), ("::std::string::String", "str", "&self.0"), ("::std::vec::Vec<u8>", "[u8]", "&self.0")):
        for entry in ("attr", "derive"):
            head = "#[::derive_ex::derive_ex(DerefMut)]" if entry == "attr" else "#[derive(::derive_ex::Ex)] #[derive_ex(DerefMut)]"
            pinned.append("#![allow(dead_code)]\n%s pub struct X(pub %s);\nimpl ::core::ops::Deref for X { type Target = %s; fn deref(&self) -> &%s { %s } }\n" % (head, fty, tgt, tgt, body))
    wdp = os.path.join(dx.WORK, "c18p-%d" % os.getpid())
    for k, src in enumerate(pinned):
        ok, diags = dx.check_only("p%d" % k, src, wdp)
        events.append({"ev": "deref_pinned", "rustc_ok": bool(ok)})
        emeta.append({"case": ("deref_pinned", src), "idx": None, "diags": dx.diag_summary(diags)[:2]})
    # field types that need care behind `&`: the single field of these structs is a legitimate Deref target and the impl must compile
    okprogs = []
    for item in ("pub struct X<'a>(pub dyn ::core::fmt::Debug + 'a);", "pub struct X { pub inner: dyn ::core::fmt::Debug + 'static }",
                 "pub struct X<'a> { pub f: &'a (dyn ::core::fmt::Debug + Send) }", "pub struct X(pub ::std::boxed::Box<dyn ::core::ops::Fn(u8) -> u8 + Send>);",
                 "pub struct X(pub [u8]);", "pub struct X<T: ?::core::marker::Sized>(pub T);", "pub struct X(pub fn(&u8) -> &u8);", "pub struct X<'a, T>(pub &'a mut [T]);"):
        for entry in ("attr", "derive"):
            head = "#[::derive_ex::derive_ex(Deref, DerefMut)]" if entry == "attr" else "#[derive(::derive_ex::Ex)] #[derive_ex(Deref, DerefMut)]"
            okprogs.append("#![allow(dead_code)]\n%s %s\n" % (head, item))
    for k, src in enumerate(okprogs):
        ok, diags = dx.check_only("q%d" % k, src, wdp)
        events.append({"ev": "deref_compiles", "rustc_ok": bool(ok)})
        emeta.append({"case": ("deref_compiles", src), "idx": None, "diags": dx.diag_summary(diags)[:2]})
    import shutil
    shutil.rmtree(wdp, ignore_errors=True)
    n, bad, jst = dx.tlc_judge("Trace_Run", "Trace_Run.cfg", events, "c18")
    ck.add_judge(n, jst)
    for i in bad:
        e, m = events[i], emeta[i]
        sig = {"kind": e["ev"], "case": str(m["case"])[:120], "obs": {k: v for k, v in e.items() if k not in ("ev",)} if e["ev"] == "deref" else None}
        ck.violation(sig, {"what": "Deref / DerefMut do not target the single field itself, or arity rule broken", "event": e,
                           "source": mods[m["idx"]][1] if m["idx"] is not None else m["case"], "diags": m.get("diags")})
    ck.sample(events[0])
    ck.cov["evaluations"] = len(events)
    ck.cov["distinct_nontrivial"] = len(cases) + len(rej)
    ck.cov["rule"] = "single-field tuple/named structs x 5 field types (String, Box<[u8]>, u8, Vec, &str) x generic (inline bound / where) x both entry points: address identity, Target type identity, write-through; arities 0..4 x {Deref},{DerefMut},{both} for the rejection"
    ck.cov["exhaustive"] = True
    if not hook:
        # histories of calls on one derived type (MC_Life): this property's calls judged with state
        import checks_life
        checks_life.life_stage(ck, tier, ["C18"], tag="life_c18", focus="deref")
    return ck.finish() if not hook else None


# ------------------------------------------------------------------------------------------------
# C12
# ------------------------------------------------------------------------------------------------
def c12(tier, hook=None):
    ck = hook["ck"] if hook else dx.Check("C12", tier)
    T = (hook or {}).get("transform") or (lambda ms: ms)
    rnd = random.Random(dx.seed())
    N = 150 if tier == "quick" else 20000
    mods, meta = [], []
    for k in range(N):
        d = rf.c12_random(rnd, k)
        entry = rnd.choice(["attr", "derive"])
        idx = len(mods)
        src, checks = rf.c12_module(idx, d, entry)
        mods.append((idx, src))
        meta.append({"kind": "random", "traits": d["traits"], "item": d["item"], "entry": entry})
    for spec in rf.C12_SPECIAL:
        for entry in ("attr", "derive"):
            idx = len(mods)
            mods.append((idx, rf.c12_special_module(idx, spec, entry)))
            meta.append({"kind": spec[0], "traits": spec[1], "item": spec[2], "entry": entry})
    mods = T(mods)
    res, failed = run_modules(mods, "c12")
    # for what does not compile: does the std twin alone compile?  (a shape std rejects is outside the property)
    std_ok = {}
    wd = os.path.join(dx.WORK, "c12-%d" % os.getpid())
    todo = [i for i in range(len(mods)) if i not in res]

    def twin_only(i):
        m = meta[i]
        dv = "#[derive(%s)]" % ", ".join(m["traits"])
        src = rf.HEAD + ((m["item"].replace("@HEAD@", dv)) if "@HEAD@" in m["item"] else "%s %s" % (dv, m["item"])) + "\n"
        ok, diags = dx.check_only("t%d" % i, src, wd)
        return i, ok
    for i, ok in dx.pmap(twin_only, todo):
        std_ok[i] = ok
    import shutil
    shutil.rmtree(wd, ignore_errors=True)
    events = []
    for i, m in enumerate(meta):
        if i in res:
            j = res[i][0]
            results = [{"name": k, "ok": bool(v)} for k, v in j.items() if k not in ("id", "nvals", "diff")]
            events.append({"ev": "twin", "traits": m["traits"], "rustc_ok": True, "std_ok": True, "nvals": j["nvals"], "results": results})
        else:
            events.append({"ev": "twin", "traits": m["traits"], "rustc_ok": False, "std_ok": bool(std_ok.get(i)), "nvals": 0, "results": []})
    n, bad, jst = dx.tlc_judge("Trace_Run", "Trace_Run.cfg", events, "c12")
    ck.add_judge(n, jst)
    skipped = 0
    for i in bad:
        e, m = events[i], meta[i]
        if not e["rustc_ok"] and not e["std_ok"]:
            if m["kind"] != "random":
                # a hand-written special shape must be one the standard derive accepts: otherwise the special itself is wrong
                raise dx.ToolError("special shape %s (%s entry) is rejected with the standard derive as well: %s" % (m["kind"], m["entry"], json.dumps(failed.get(i))[:600]))
            skipped += 1          # the standard derive rejects this shape as well: not a counter-example (generator artefact)
            continue
        failing = sorted(r["name"] for r in e["results"] if not r["ok"])
        codes = ",".join(sorted(set(d.get("code") or "?" for d in (failed.get(i) or []))))
        sig = {"kind": m["kind"] if m["kind"] != "random" else "random_shape", "rustc_ok": e["rustc_ok"], "failing": "+".join(failing), "codes": codes}
        if m["kind"] == "random":
            sig["raw_idents"] = "r#" in m["item"]
            sig["empty"] = False
        ck.violation(sig, {"what": "derive_ex is not a drop-in for the standard derive on this attribute-free item", "item": m["item"], "traits": m["traits"],
                           "entry": m["entry"], "event": e, "diags": failed.get(i), "diff": (res.get(i) or [{}])[0].get("diff")})
    ck.notes["std_rejects_too"] = skipped
    ck.sample({"item": meta[0]["item"], "traits": meta[0]["traits"], "event": events[0]})
    ck.cov["evaluations"] = len(events)
    ck.cov["distinct_nontrivial"] = len(set(m["item"] for m in meta))
    ck.cov["rule"] = "seeded random attribute-free struct/enum shapes (0..5 variants, 0..4 fields, lifetime / type / const parameters with defaults and where-clauses, raw identifiers, repr / non_exhaustive) with all eight traits, plus special shapes (empty enums, unsized tails, floats with NaN, parameters named H, raw names, Self in where); std-derived twin as oracle"
    ck.cov["exhaustive"] = False
    ck.assumptions.append("decisive oracles: rustc (compiles) and the standard derives (behaviour)")
    return ck.finish() if not hook else None
