"""Checks about the expansion itself (tokens in, tokens out): C14 C15 C16 C19.  In-process observer only."""
import copy, glob, json, os, random, re, itertools
import dxlib as dx
import cmpfam as cf
import bndfam as bf

HELPER_NAMES = ["ord", "partial_ord", "eq", "partial_eq", "hash", "debug", "default"]
ALL_TRAITS = ["Clone", "Copy", "Debug", "Default", "Ord", "PartialOrd", "Eq", "PartialEq", "Hash", "Deref", "DerefMut",
              "Neg", "Not"] + bf.BINOPS + [b + "Assign" for b in bf.BINOPS]
ENUM_TRAITS = ["Clone", "Copy", "Debug", "Default", "Ord", "PartialOrd", "Eq", "PartialEq", "Hash"]


def model_attrs(ck):
    st, outp = dx.tlc_run("MC_Attrs", "MC_Attrs.cfg", "mc_attrs", workers=4)
    if not st["ok"]:
        ck.violation({"kind": "model", "invariants": st["violated"]}, {"tlc_output": outp, "tail": open(outp).read()[-2000:]})
        return False
    ck.add_model(st)
    ck.notes["model"] = {"module": "MC_Attrs", "states": st.get("distinct"), "cached": st.get("cached")}
    return True


# ------------------------------------------------------------------------------------------------
# C14
# ------------------------------------------------------------------------------------------------
FOREIGN = [("doc", '#[doc = "d%d"]'), ("doc", "/// c%d\n"), ("allow", "#[allow(dead_code, unused%d)]"), ("cfg_attr", "#[cfg_attr(all(), allow(unused%d))]"),
           ("serde", "#[serde(rename = \"r%d\")]"), ("path_attr", "#[my::tool(%d)]"), ("deny", "#[deny(unused%d)]"), ("must_use", "#[must_use = \"m%d\"]")]
FOREIGN += [("path_derive_ex_list", "#[::derive_ex::derive_ex(Not(bound(u8: Q%d, ..)))]"), ("path_derive_ex_list2", "#[derive_ex::derive_ex(BitXorAssign(bound(u8: Q%d, ..)))]"),
            ("path_debug", "#[my::debug(%d)]"), ("path_default", "#[serde::default = %d]"), ("path_derive_ex", "#[x::derive_ex(Clone, %d)]"),
            ("path_ord", "#[::tools::ord(%d)]"), ("path_hash", "#[a::b::hash(%d)]")]
TYPE_FOREIGN = FOREIGN + [("repr", "#[repr(C, align(%d))]"), ("non_exhaustive", "#[non_exhaustive]%.0s")]


def helper_attr(name, target, uid, rnd):
    """a VALID helper attribute of the given name for the given target, textually unique through uid"""
    b = "bound(u8: Q%d, ..)" % uid
    if name == "debug":
        if target == "field":
            return rnd.choice(["#[debug(ignore, %s)]", "#[debug(%s)]"]) % b
        return "#[debug(%s)]" % b
    if name == "default":
        if target == "field":
            return rnd.choice(["#[default(_, %s)]", "#[default(Default::default(), %s)]"]) % b
        if target == "variant":
            return "#[default(_, %s)]" % b
        return "#[default(_, %s)]" % b
    if target == "field":
        arg = rnd.choice(["", "ignore, "]) if name != "hash" else rnd.choice(["", "ignore, "])
        return "#[%s(%s%s)]" % (name, arg, b)
    return "#[%s(%s)]" % (name, b)


def redelimit(attr, rnd):
    """`#[name(args)]` -> `#[name[args]]` / `#[name{args}]` now and then: the delimiter of an attribute's argument list is free"""
    r = rnd.random()
    if r > 0.2 or not attr.endswith(")]") or "(" not in attr:
        return attr
    i = attr.index("(")
    o, c = ("[", "]") if r < 0.1 else ("{", "}")
    return attr[:i] + o + attr[i + 1:-2] + c + "]"


def c14_item(rnd, kind, uid0):
    """random struct / enum with interleaved foreign, helper and derive_ex attributes; returns dict"""
    uid = [uid0]

    def nxt():
        uid[0] += 1
        return uid[0]

    def attrs_for(target, allow_derive_ex, default_marker=False):
        out = []
        n = rnd.choice([0, 1, 1, 2, 3, 4])
        seen_helpers = set()
        for _ in range(n):
            r = rnd.random()
            if r < 0.45:
                nm, tpl = rnd.choice(TYPE_FOREIGN if target == "type" else FOREIGN)
                out.append((nm, tpl % nxt()))
            elif r < 0.85:
                nm = rnd.choice(HELPER_NAMES)
                if nm in seen_helpers:
                    continue      # a helper attribute may be given once per position
                seen_helpers.add(nm)
                out.append((nm, redelimit(helper_attr(nm, target, nxt(), rnd), rnd)))
            elif allow_derive_ex:
                out.append(("derive_ex", redelimit("#[derive_ex(bound(u8: Q%d, ..))]" % nxt(), rnd)))
        return out
    item = {"kind": kind, "type_attrs": attrs_for("type", False), "variants": []}
    many = rnd.random() < 0.15        # now and then: several nested #[derive_ex] lists on one field / variant
    nv = 1 if kind == "struct" else rnd.choice([1, 2, 3])
    for vi in range(nv):
        shape = rnd.choice(["named", "tuple", "unit"]) if kind == "enum" else rnd.choice(["named", "tuple"])
        nf = 0 if shape == "unit" else rnd.choice([1, 2, 3])
        v = {"shape": shape, "attrs": attrs_for("variant", True) if kind == "enum" else [], "fields": []}
        for j in range(nf):
            v["fields"].append({"attrs": attrs_for("field", True)})
            if many:
                for _ in range(rnd.choice([2, 3])):
                    v["fields"][-1]["attrs"].insert(rnd.randrange(len(v["fields"][-1]["attrs"]) + 1), ("derive_ex", "#[derive_ex(bound(u8: Q%d, ..))]" % nxt()))
        if many and kind == "enum":
            for _ in range(2):
                v["attrs"].append(("derive_ex", "#[derive_ex(bound(u8: Q%d, ..))]" % nxt()))
        item["variants"].append(v)
    return item, uid[0]


# items NESTED in constant expressions of the annotated item (a discriminant, an array length, the default of a const parameter): their
# attributes - helper-named ones included - are not attributes of the annotated type, its variants or their fields, and stay
NESTED_ITEMS = ["#[derive(Default)] enum Inner { #[default] A, #[doc = \"n\"] B }",
                "#[derive(::derive_ex::Ex)] #[derive_ex(Debug, Default)] struct Inner { #[debug(ignore)] #[default(3)] x: u8, #[ord(reverse)] #[hash(ignore)] y: u8 }",
                "#[derive_ex(Clone)] #[eq(bound())] struct Inner(#[partial_eq(ignore)] #[derive_ex(Clone, bound())] u8);",
                "enum Inner { #[ord(ignore)] #[default] #[debug(transparent)] V(#[partial_ord(reverse)] #[eq(key = $)] u8) }"]


def c14_src(item, extra_type_attrs="", vis="pub", generics="<T>", where="where T: Copy", disc=False, nested=None):
    ta = " ".join(a for _, a in item["type_attrs"]) + " " + extra_type_attrs
    if nested is not None and "const N: usize = 3" in generics:
        generics = generics.replace("const N: usize = 3", "const N: usize = { %s 3 }" % NESTED_ITEMS[nested % len(NESTED_ITEMS)])
    # items without a type parameter: non-generic, or a lifetime parameter only
    t0 = "T" if "T" in generics else ("&'a u8" if "'a" in generics else "u16")
    if "T" not in generics:
        where = ""

    def fields(v):
        fs = []
        for j, f in enumerate(v["fields"]):
            at = " ".join(a for _, a in f["attrs"])
            u8t = "u8" if nested is None or j != 1 else "[u8; { %s 2 }]" % NESTED_ITEMS[(nested + 1) % len(NESTED_ITEMS)]
            if v["shape"] == "named":
                fs.append("%s pub(crate) g%d: %s" % (at, j, t0 if j == 0 else u8t))
            else:
                fs.append("%s %s" % (at, t0 if j == 0 else u8t))
        if v["shape"] == "named":
            return "{ %s }" % ", ".join(fs)
        if v["shape"] == "tuple":
            return "( %s )" % ", ".join(fs)
        return ""
    if item["kind"] == "struct":
        v = item["variants"][0]
        if v["shape"] == "named":
            return "%s %s struct X%s %s %s" % (ta, vis, generics, where, fields(v))
        return "%s %s struct X%s %s %s;" % (ta, vis, generics, fields(v), where)
    vs = []
    for vi, v in enumerate(item["variants"]):
        at = " ".join(a for _, a in v["attrs"])
        d = " = %d" % (vi * 3) if disc else ""       # (with a primitive repr every kind of variant may carry a discriminant)
        if disc and nested is not None and vi % 2 == 1:
            d = " = { %s %d }" % (NESTED_ITEMS[(nested + vi) % len(NESTED_ITEMS)], vi * 3)
        vs.append("%s V%d %s%s" % (at, vi, fields(v), d))
    return "%s %s enum X%s %s { %s }" % (ta, vis, generics, where, ", ".join(vs))


def positions(item):
    pos = [[n for n, _ in item["type_attrs"]]]
    for v in item["variants"]:
        if item["kind"] == "enum":
            pos.append([n for n, _ in v["attrs"]])
        for f in v["fields"]:
            pos.append([n for n, _ in f["attrs"]])
    return pos


def c14(tier):
    ck = dx.Check("C14", tier)
    if not model_attrs(ck):
        return ck.finish()
    rnd = random.Random(dx.seed())
    N = 4000 if tier == "quick" else 40000
    cases = []
    uid = 0
    for n in range(N):
        kind = rnd.choice(["struct", "enum"])
        item, uid = c14_item(rnd, kind, uid)
        pool = ALL_TRAITS if kind == "struct" else ENUM_TRAITS
        D = rnd.sample(pool, rnd.choice([1, 1, 2, 3, 5]))
        if rnd.random() < 0.2:          # only traits without helper attributes: hardly any name is derive_ex's own
            D = rnd.sample([t for t in pool if t in ("Clone", "Copy", "Add", "SubAssign", "Neg", "Not", "Deref")] or ["Clone"], 1)
        # single-field rule of Deref / operators on enums etc. only change whether an ENTRY fails, never the item
        mode = rnd.random()
        lists_ok = True
        args = ", ".join(D)
        extra = ""
        if mode < 0.08:
            args = ", ".join(D + ["Foo"])           # unknown trait: the lists cannot be read
            lists_ok = False
        elif mode < 0.12:
            args = " ".join(D) + " +"               # syntax error in the arguments
            lists_ok = False
        elif mode < 0.20 and kind == "enum":
            D = D + ["Add"]                          # not derivable on enums: whole derivation fails, lists were read
            args = ", ".join(D)
        elif mode < 0.28:
            extra = "#[derive_ex(%s)]" % "Clone"     # a second list on the type
            if "Clone" in D:
                extra = "#[derive_ex(Hash)]" if "Hash" not in D else ""
            if extra:
                D = D + [re.search(r"\((\w+)\)", extra).group(1)]
                if rnd.random() < 0.5:      # and a third and fourth one
                    extra += " #[derive_ex(bound(u8: Q1, ..))] #[derive_ex(bound(u8: Q2, ..))]"
        src = c14_src(item, extra_type_attrs=extra, vis=rnd.choice(["pub", "pub(crate)", ""]),
                      generics=rnd.choice(["<T>", "<T = u8>", "<'a, T: 'a + Copy, const N: usize = 3>", "", "<'a>", "<const N: usize>"]),
                      where=rnd.choice(["", "where T: Copy"]), disc=rnd.random() < 0.3, nested=(rnd.randrange(8) if rnd.random() < 0.25 else None))
        cases.append({"item": item, "D": D, "args": args, "src": src, "lists_ok": lists_ok, "extra": extra})
    # misplaced comparison argument on the type: whole failure after the lists were read
    for n in range(N // 20):
        item, uid = c14_item(rnd, "struct", uid)
        item["type_attrs"] = [x for x in item["type_attrs"] if x[0] != "ord"] + [("ord", "#[ord(ignore)]")]
        D = ["Ord", "Clone"]
        cases.append({"item": item, "D": D, "args": ", ".join(D), "src": c14_src(item), "lists_ok": True, "extra": ""})
    # an invalid helper attribute at the type, a variant or a field (struct and enum), next to nested / stacked derive_ex attributes:
    # the lists were read, the derivation fails as a whole, and the item comes back without any of derive_ex's own attributes
    BAD = {"ord": ("Ord", ["#[ord(ignore)]", "#[ord(nonsense)]", "#[ord = 1]"]), "debug": ("Debug", ["#[debug(bond(T))]", "#[debug = 2]"]),
           "default": ("Default", ["#[default(1, 2)]"]), "hash": ("Hash", ["#[hash(reverse)]", "#[hash(what)]"]), "eq": ("PartialEq", ["#[eq(reverse)]"])}
    for n in range(N // 8):
        kind = rnd.choice(["struct", "enum"])
        item, uid = c14_item(rnd, kind, uid)
        h = rnd.choice(sorted(BAD))
        tr, texts = BAD[h]
        place = rnd.choice(["type", "field"] + (["variant"] if kind == "enum" else []))
        text = rnd.choice(texts)
        if place != "type" and text in ("#[ord(ignore)]",):
            text = "#[ord(nonsense)]"              # `ignore` is legitimate on a field
        if place == "type":
            item["type_attrs"] = [x for x in item["type_attrs"] if x[0] != h] + [(h, text)]
        elif place == "variant":
            v = rnd.choice(item["variants"])
            v["attrs"] = [x for x in v["attrs"] if x[0] != h] + [(h, text)]
        else:
            vs = [v for v in item["variants"] if v["fields"]]
            if not vs:
                continue
            f = rnd.choice(rnd.choice(vs)["fields"])
            f["attrs"] = [x for x in f["attrs"] if x[0] != h] + [(h, text)]
        D = [tr] + rnd.sample([t for t in ENUM_TRAITS if t != tr], rnd.choice([0, 1, 2]))
        rnd.shuffle(D)
        extra = rnd.choice(["", "", "#[derive_ex(bound(u8: Q0, ..))]"])
        cases.append({"item": item, "D": D, "args": ", ".join(D), "src": c14_src(item, extra_type_attrs=extra), "lists_ok": True, "extra": extra})
    reqs = []
    for i, c in enumerate(cases):
        reqs.append({"k": "items", "id": 2 * i, "src": c["src"]})
        reqs.append({"k": "expand", "id": 2 * i + 1, "entry": "attr", "attr": c["args"], "item": c["src"]})
    resps = dx.expand(reqs)
    events, keep = [], []
    for i, c in enumerate(cases):
        rin, rout = resps[2 * i], resps[2 * i + 1]
        if not rin.get("parse_ok") or not rin["items"]:
            raise dx.ToolError("generated item does not parse: %s" % c["src"])
        ain = rin["items"][0]["attr_pos"]
        names = positions(c["item"])
        if c["extra"]:
            names[0] = names[0] + ["derive_ex"] * c["extra"].count("#[derive_ex")
        if [len(x) for x in ain] != [len(x) for x in names]:
            raise dx.ToolError("attribute bookkeeping mismatch: %s vs %s in %s" % (ain, names, c["src"]))
        present = rout.get("class") in ("items", "compile_error") and rout["items"] and rout["items"][0]["kind"] in ("struct", "enum")
        pos = []
        skel = False
        if present:
            aout = rout["items"][0]["attr_pos"]
            skel = rout["items"][0]["skeleton"] == rin["items"][0]["skeleton"]
            if len(aout) == len(ain):
                for p, (i_attrs, o_attrs) in enumerate(zip(ain, aout)):
                    kept = []
                    for o in o_attrs:
                        # map each surviving attribute to its position in the input (texts are unique by construction)
                        idxs = [k + 1 for k, a in enumerate(i_attrs) if a == o and (k + 1) not in kept]
                        kept.append(idxs[0] if idxs else 0)
                    pos.append({"names": names[p], "kept": kept})
            else:
                skel = False
                pos = [{"names": nm, "kept": []} for nm in names]
        else:
            pos = [{"names": nm, "kept": []} for nm in names]
        # what was generated: only traits the lists name (an attribute that merely LOOKS like derive_ex's - a path ending in
        # `derive_ex` - is foreign: it stays, and nothing is generated for it)
        gen = sorted(set((x.get("trait") or "").split("::")[-1] for x in rout.get("items", [])[1:] if x["kind"] == "impl"))
        events.append({"ev": "strip", "D": c["D"], "lists_ok": c["lists_ok"], "item_present": bool(present), "skeleton_equal": skel, "pos": pos, "generated": gen})
        keep.append(i)
    # impl items are re-emitted token for token
    impl_srcs = ["impl ::core::ops::Add<X> for X { type Output = X; #[inline] fn add(self, r: X) -> X { X(self.0 + r.0) } }",
                 "#[doc = \"keep\"] #[allow(unused)] impl<T: Clone> ::core::ops::Sub<&W<T>> for &W<T> where T: Copy { type Output = W<T>; fn sub(self, r: &W<T>) -> W<T> { todo!() } }",
                 "/// docs\nimpl ::core::ops::MulAssign<u8> for X { fn mul_assign(&mut self, r: u8) { self.0 *= r } }"]
    ireq = []
    for s in impl_srcs:
        for args in ("Add", "Sub", "Mul", "Add, AddAssign", "SubAssign", "Foo", ""):
            ireq.append({"k": "items", "id": 0, "src": s})
            ireq.append({"k": "expand", "id": 1, "entry": "attr", "attr": args, "item": s})
    ir = dx.expand(ireq)
    for k in range(0, len(ir), 2):
        a, b = ir[k], ir[k + 1]
        pres = b.get("class") in ("items", "compile_error") and b["items"] and b["items"][0]["kind"] == "impl"
        events.append({"ev": "implitem", "item_present": bool(pres), "item_equal": bool(pres and a["items"][0]["hash"] == b["items"][0]["hash"])})
    n, bad, jst = dx.tlc_judge("Trace_Exp", "Trace_Exp.cfg", events, "c14", chunk=max(500, -(-len(events) // 10)))
    ck.add_judge(n, jst)
    for i in bad:
        e = events[i]
        if e["ev"] == "implitem":
            ck.violation({"kind": "implitem"}, {"event": e, "request": ireq[2 * (i - len(cases)) + 1]})
            continue
        c = cases[i]
        wrong = [p for p in e["pos"]]
        kinds = sorted(set(n for p in e["pos"] for n in p["names"]))
        sig = {"kind": "strip", "item": c["item"]["kind"], "lists_ok": c["lists_ok"], "present": e["item_present"], "skeleton": e["skeleton_equal"],
               "whole_failure": any(x["kind"] == "compile_error" for x in resps[2 * i + 1].get("items", [])) and not any(x["kind"] == "impl" for x in resps[2 * i + 1].get("items", []))}
        ck.violation(sig, {"what": "re-emitted item differs from the input minus derive_ex's own attributes", "args": c["args"], "item": c["src"],
                           "D": c["D"], "positions": e["pos"], "output_attrs": (resps[2 * i + 1].get("items") or [{}])[0].get("attr_pos")})
    for i in (0, len(cases) // 2):
        ck.sample({"args": cases[i]["args"], "item": cases[i]["src"][:400], "positions": events[i]["pos"]})
    ck.cov["evaluations"] = len(events)
    ck.cov["distinct_nontrivial"] = len(set(json.dumps(e["pos"]) for e in events if e["ev"] == "strip" and any(p["names"] for p in e["pos"])))
    ck.cov["rule"] = "seeded random struct/enum items with up to 4 interleaved foreign / helper / nested derive_ex attributes per position, random derived sets, split lists, visibility / generics-with-defaults / where / discriminants, plus unreadable lists, enum-unsupported traits and misplaced arguments; impl items; distinct = distinct attribute layouts"
    return ck.finish()


# ------------------------------------------------------------------------------------------------
# C15
# ------------------------------------------------------------------------------------------------
def gen_hashes(resp, entry):
    """hashes of the generated items (everything but the re-emitted item), in order"""
    if resp.get("class") not in ("items", "compile_error"):
        return ["<%s>" % resp.get("class")]
    items = resp["items"]
    if entry == "attr" and items and items[0]["kind"] in ("struct", "enum", "impl") and "attr_pos" in items[0] or (entry == "attr" and items and items[0]["kind"] == "impl"):
        items = items[1:]
    return [(i["hash"] if i["kind"] != "compile_error" else "E:" + (i.get("msg") or "")) for i in items]


def trait_seq(resp, entry):
    items = resp.get("items", [])
    if entry == "attr":
        items = items[1:]
    seq = []
    for i in items:
        if i["kind"] == "impl":
            name = i["trait"].split("::")[-1]
            if not seq or seq[-1] != name:
                seq.append(name)
        elif i["kind"] == "compile_error":
            seq.append("!")
    return seq


def impl_of(resp, entry, t):
    items = resp.get("items", [])
    if entry == "attr":
        items = items[1:]
    out = []
    take_const = False
    for i in items:
        if i["kind"] == "impl" and i["trait"].split("::")[-1] == t:
            out.append(i["hash"])
            take_const = t == "Eq"
        elif i["kind"] == "const" and take_const:
            out.append(i["hash"])
            take_const = False
        else:
            take_const = False
    return out


def c15(tier):
    ck = dx.Check("C15", tier)
    import checks_cmp, checks_bnd
    cfgs, st = checks_cmp.mc_cfgs(ck, tier, dsets="quick" if tier == "quick" else "all")
    if not model_attrs(ck):
        return ck.finish()
    rnd = random.Random(dx.seed())
    sample = rnd.sample(cfgs, min(len(cfgs), 6000 if tier == "quick" else 40000))
    reqs, plan = [], []

    def add(entry, attr, item):
        reqs.append({"k": "expand", "id": len(reqs), "entry": entry, "attr": attr, "item": item})
        return len(reqs) - 1
    shapes = cf.shapes("quick")
    allD = [list(x) for k in range(1, 6) for x in itertools.combinations(cf.TRAITS, k)]
    for c in sample:
        stag, build = rnd.choice(shapes)
        P = build(c["c"])
        D = list(c["D"])
        rnd.shuffle(D)                      # listing order is the user's choice
        body = cf.item_src(P, D, "T", "distinct", "attr")
        item = body[body.index("]") + 1:]
        a = add("attr", ", ".join(D), item)
        d = add("derive", "", "#[derive_ex(%s)] %s" % (", ".join(D), item))
        plan.append(("entry", a, d, None))
        plan.append(("order", a, None, D))
        if len(D) >= 2:
            k = rnd.randrange(1, len(D))
            s1 = add("attr", ", ".join(D[:k]), "#[derive_ex(%s)] %s" % (", ".join(D[k:]), item))
            plan.append(("split", a, s1, None))
            s2 = add("derive", "", "#[derive_ex(%s)] #[derive_ex(%s)] %s" % (", ".join(D[:k]), ", ".join(D[k:]), item))
            plan.append(("split", d, s2, None))
            # other attributes between the lists must not matter
            between = rnd.choice(['#[doc = "between"]', "#[allow(dead_code)]", "/// text\n"])
            s3 = add("derive", "", "#[derive_ex(%s)] %s #[derive_ex(%s)] %s" % (", ".join(D[:k]), between, ", ".join(D[k:]), item))
            plan.append(("split3", d, s3, between))
            s4 = add("attr", ", ".join(D[:1]), "%s #[derive_ex(%s)] %s #[derive_ex(%s)] %s" % (between, ", ".join(D[1:k]) or D[0], between, ", ".join(D[k:]), item)) if k >= 2 else None
            if s4 is not None:
                plan.append(("split3", a, s4, between))
        # co-derived: same trait t under another derived set
        t = rnd.choice(D)
        D2 = rnd.choice([x for x in allD if t in x and set(x) != set(D)])
        b = add("derive", "", "#[derive_ex(%s)] %s" % (", ".join(D2), item))
        plan.append(("coderived", d, b, (t, P)))
    # non-comparison traits: the impl of one trait under two different co-derived sets (items without helper attributes)
    plain_items = ["struct X<T>(T, u8);", "struct X { a: u8, b: String }", "enum X<T> { A, #[default] B(T), C { x: u8 } }", "struct X;", "enum X { #[default] A, B }",
                   # unrelated attributes of the item (layout, exhaustiveness, lint levels, conditional attributes), lifetime- / const-only parameters
                   "#[repr(packed)] struct X(u8, [u8; 2]);", "#[repr(C, packed)] struct X { a: u8, b: i8 }", "#[repr(C)] struct X<T> { a: T }", "#[repr(packed(2))] struct X<T>(T);",
                   "#[non_exhaustive] #[repr(u8)] enum X { #[default] A = 1, B = 5 }", "#[must_use] #[cfg_attr(all(), allow(dead_code))] struct X<'a>(&'a u8, u16);",
                   "struct X<const N: usize>([u8; N]);", "#[repr(transparent)] struct X(u32);", "#[allow(dead_code)] #[doc = \"d\"] enum X<'a, const N: usize> { #[default] A, B(&'a [u8; N]) }"]
    others = ["Clone", "Copy", "Debug", "Default", "PartialEq", "Hash"]
    for it in plain_items:
        for t in others:
            for extra in ([], ["Copy"], ["Clone"], ["Debug", "Default"], ["PartialEq", "Eq", "Hash"], ["Clone", "Copy", "Debug"]):
                if t in extra:
                    continue
                D1, D2 = [t], [t] + extra
                rnd.shuffle(D2)
                x = add("derive", "", "#[derive_ex(%s)] %s" % (", ".join(D1), it))
                y = add("derive", "", "#[derive_ex(%s)] %s" % (", ".join(D2), it))
                plan.append(("coderived_plain", x, y, t))
    # items with bound(...) arguments at all nine levels, debug / default helpers (entry relation, both directions)
    bitems = checks_bnd.c04_items("quick", rnd)
    for P in rnd.sample(bitems, min(len(bitems), 3000 if tier == "quick" else 30000)):
        r = bf.requests_for(P, 0)
        a = add("attr", r[0]["attr"], r[0]["item"])
        d = add("derive", "", r[1]["item"])
        plan.append(("entry", a, d, None))
    # every placement of bound(...) on the comparison helper attributes (type / variant / field), both entry points
    for t in cf.TRAITS:
        for P in checks_bnd.cmp_level_items(t, "quick", rnd):
            r = bf.requests_for(P, 0)
            a = add("attr", r[0]["attr"], r[0]["item"])
            d = add("derive", "", r[1]["item"])
            plan.append(("entry", a, d, None))
    # a shared bound(...) belongs to ITS list only: `#[derive_ex(A, b)] #[derive_ex(B)]` is `#[derive_ex(A(b), B)]`, in either order of the lists
    gitems = ["struct X<T>(T, u8);", "enum X<T> { A(T), B }", "struct X<T, U> { a: T, b: ::core::option::Option<U> }"]
    btexts = ["bound(T: ::core::marker::Copy)", "bound()", "bound(T: ::core::marker::Copy, ..)", "bound(::core::option::Option<T>)"]
    tl = ["Clone", "Debug", "PartialEq", "Hash", "PartialOrd"]
    for it in gitems:
        for b in btexts:
            for A in tl:
                for B in tl:
                    if A == B:
                        continue
                    for entry in ("attr", "derive"):
                        def two(l1, l2):
                            if entry == "attr":
                                return add("attr", l1, "#[derive_ex(%s)] %s" % (l2, it))
                            return add("derive", "", "#[derive_ex(%s)] #[derive_ex(%s)] %s" % (l1, l2, it))
                        def one(l):
                            return add(entry, l if entry == "attr" else "", it if entry == "attr" else "#[derive_ex(%s)] %s" % (l, it))
                        plan.append(("split", two("%s, %s" % (A, b), B), one("%s(%s), %s" % (A, b, B)), None))
                        plan.append(("split", two(B, "%s, %s" % (A, b)), one("%s, %s(%s)" % (B, A, b)), None))
    # an attribute that only LOOKS like a derive_ex list (a path ending in `derive_ex`) is foreign: with it or without it the same is generated
    for it in ("struct X<T>(T, u8);", "enum X { #[default] A, B(u8) }"):
        for A in ("Clone", "Debug", "Default", "PartialEq", "Hash"):
            for B in ("Clone", "Debug", "PartialEq", "Hash", "Copy"):
                if A == B:
                    continue
                for spelled in ("#[::derive_ex::derive_ex(%s)]", "#[derive_ex::derive_ex(%s)]"):
                    x = add("attr", A, (spelled % B) + " " + it)
                    y = add("attr", A, it)
                    plan.append(("split", x, y, None))
    # a list with ONE trait carrying both its own and the shared bound: `[A(bx), by] [B, by]` is `[A(bx), B, by]`
    for it in ("struct X<T, U>(T, ::core::option::Option<U>);", "enum X<T, U> { A(T), B { u: U } }"):
        for bx in ("bound(T)", "bound(T: ::core::marker::Copy)", "bound()", "bound(T, ..)"):
            for by in ("bound(U, ..)", "bound(U: ::core::marker::Copy)", "bound(::core::option::Option<U>, ..)"):
                for A in ("Clone", "Debug", "PartialEq", "Hash"):
                    for B in ("Clone", "Debug", "PartialEq", "Hash"):
                        if A == B:
                            continue
                        for entry in ("attr", "derive"):
                            l1, l2, lm = "%s(%s), %s" % (A, bx, by), "%s, %s" % (B, by), "%s(%s), %s, %s" % (A, bx, B, by)
                            if entry == "attr":
                                x, y = add("attr", l1, "#[derive_ex(%s)] %s" % (l2, it)), add("attr", lm, it)
                            else:
                                x = add("derive", "", "#[derive_ex(%s)] #[derive_ex(%s)] %s" % (l1, l2, it))
                                y = add("derive", "", "#[derive_ex(%s)] %s" % (lm, it))
                            plan.append(("split", x, y, None))
    # field lists that are present but empty (`struct X {}`, `struct X();`, `A {}`, `B()`): the same through both entry points
    for it in ("struct X {}", "struct X();", "struct X<T> {}", "enum X { #[default] A {}, B() }", "enum X<T> { A(), #[default] B {}, C(T) }"):
        for D in ("Clone", "Default", "Clone, Default, Debug, PartialEq, Hash", "Copy, Clone", "Eq, PartialEq, Ord, PartialOrd"):
            a = add("attr", D, it)
            d = add("derive", "", "#[derive_ex(%s)] %s" % (D, it))
            plan.append(("entry", a, d, None))
    for it in ("struct X {}", "struct X();"):
        for D in ("Add", "Neg, Not", "SubAssign, Add"):
            a = add("attr", D, it)
            d = add("derive", "", "#[derive_ex(%s)] %s" % (D, it))
            plan.append(("entry", a, d, None))
    # the impl of B with its OWN bound(...) argument does not depend on what else is derived (nor on that trait's arguments)
    cl = ["Clone", "Debug", "PartialEq", "Hash", "Deref", "DerefMut", "Neg", "AddAssign"]
    for it in ("struct X<T>(T);", "struct X<T> { a: T }"):
        for b in ("bound(T: ::core::marker::Copy)", "bound()", "bound(T: ::core::marker::Copy, ..)"):
            for B in cl:
                for A in cl:
                    if A == B:
                        continue
                    for Aarg in ("", "(bound(T: ::core::fmt::Debug))"):
                        x = add("derive", "", "#[derive_ex(%s(%s))] %s" % (B, b, it))
                        lst = ["%s%s" % (A, Aarg), "%s(%s)" % (B, b)]
                        if (len(plan) % 2) == 0:
                            lst.reverse()
                        y = add("derive", "", "#[derive_ex(%s)] %s" % (", ".join(lst), it))
                        plan.append(("coderived_plain", x, y, B))
    resps = dx.expand(reqs)
    events = []
    for rel, x, y, extra in plan:
        if rel in ("entry", "split", "split3"):
            events.append({"ev": "equiv", "rel": "split" if rel == "split3" else rel, "equal": gen_hashes(resps[x], reqs[x]["entry"]) == gen_hashes(resps[y], reqs[y]["entry"])})
        elif rel == "coderived_plain":
            t = extra
            events.append({"ev": "equiv", "rel": "entry", "equal": impl_of(resps[x], "derive", t) == impl_of(resps[y], "derive", t) and len(impl_of(resps[x], "derive", t)) > 0})
        elif rel == "order":
            seq = trait_seq(resps[x], "attr")
            listed = [t for t in extra]
            # an entry that derive_ex refuses shows as "!" in its place
            obs = [t if t != "!" else listed[k] if k < len(listed) else "?" for k, t in enumerate(seq)]
            events.append({"ev": "equiv", "rel": "order", "observed": obs, "listed": listed})
        else:
            t, P = extra
            events.append({"ev": "equiv", "rel": "coderived", "t": t, "P": P,
                           "equal": impl_of(resps[x], "derive", t) == impl_of(resps[y], "derive", t) and len(impl_of(resps[x], "derive", t)) > 0 or
                                    (impl_of(resps[x], "derive", t) == [] and impl_of(resps[y], "derive", t) == [])})
    n, bad, jst = dx.tlc_judge("Trace_Exp", "Trace_Exp.cfg", events, "c15", chunk=max(500, -(-len(events) // 10)))
    ck.add_judge(n, jst)
    for i in bad:
        rel, x, y, extra = plan[i]
        sig = {"kind": rel}
        if rel == "coderived_plain":
            sig["t"] = extra
        if rel == "coderived":
            sig["t"] = extra[0]
            sig["D1"] = reqs[x]["item"][:reqs[x]["item"].index("]")]
            sig["D2"] = reqs[y]["item"][:reqs[y]["item"].index("]")]
        ck.violation(sig, {"what": "expansions that must agree differ", "event": {k: v for k, v in events[i].items() if k != "P"},
                           "request_1": reqs[x], "request_2": reqs[y] if y is not None else None})
    ck.sample({"relation": plan[0][0], "request_1": reqs[plan[0][1]], "request_2": reqs[plan[0][2]]})
    ck.cov["evaluations"] = len(events)
    ck.cov["distinct_nontrivial"] = len(set(r.get("out_hash") for r in resps))
    ck.cov["rule"] = "seeded sample of the comparison matrix x shapes with shuffled trait lists: entry-point, split-list, listing-order and co-derived relations; plus nine-level bound items through both entry points; distinct = distinct expansions"
    return ck.finish()


# ------------------------------------------------------------------------------------------------
# C19
# ------------------------------------------------------------------------------------------------
def entry_groups(resp, entry, traits):
    """split the generated items of an expansion into one group per listed trait (in order)"""
    items = resp.get("items", [])
    if entry == "attr":
        items = items[1:]
    groups, pos = [], 0
    for t in traits:
        g = []
        if pos < len(items) and items[pos]["kind"] == "compile_error":
            g = [items[pos]]
            pos += 1
        else:
            while pos < len(items) and items[pos]["kind"] == "impl" and items[pos]["trait"].split("::")[-1] == t:
                g.append(items[pos])
                pos += 1
            while g and pos < len(items) and items[pos]["kind"] == "const":
                g.append(items[pos])
                pos += 1
        groups.append(g)
    return groups, pos == len(items)


def c19(tier):
    ck = dx.Check("C19", tier)
    if not model_attrs(ck):
        return ck.finish()
    rnd = random.Random(dx.seed())
    import checks_bnd
    bases = []
    # items: simple structs / enums with and without generics, helpers, failing entries
    srcs = [("struct", "struct X<T>(T, u8);"), ("struct", "struct X { a: u8, #[debug(ignore)] b: String }"), ("struct", "struct X(u8);"),
            ("enum", "enum X<T> { A, #[default] B(T), C { #[ord(key = $.len())] x: String } }"), ("struct", "struct X;"),
            ("struct", "struct X<T: Clone> where T: Copy { #[ord(reverse)] a: T, #[eq(ignore)] #[debug(transparent)] b: u8 }"),
            ("struct", "#[deprecated] struct X<T>(T, #[deprecated(note = \"n\")] u8);"), ("enum", "#[allow(dead_code)] enum X<T> { #[deprecated] A, #[default] B(#[deprecated] T) }"),
            ("struct", "struct X { #[default(\"a  b\")] a: String, #[default(*b\"x\\ty   z\")] b: [u8; 7], #[ord(key = $.len() + \"p   q\".len())] c: String }")]
    N = 1500 if tier == "quick" else 15000
    cases = []
    for n in range(N):
        kind, src = rnd.choice(srcs)
        pool = ALL_TRAITS if kind == "struct" else ENUM_TRAITS + ["Add"]
        k = rnd.choice([1, 2, 2, 3, 4])
        traits = rnd.sample(pool, k)
        nl = rnd.choice([1, 1, 2]) if k >= 2 else 1
        cut = rnd.randrange(1, k) if nl == 2 else k
        lists = []
        for part in ([traits[:cut], traits[cut:]] if nl == 2 else [traits]):
            lists.append({"traits": [{"t": t, "dump": rnd.random() < 0.35, "b": rnd.choice(["", "", "", "bound()", "bound(..)", "bound(u8: Copy)", "bound(u8: Copy, ..)"])} for t in part],
                          "dump": rnd.random() < 0.25})
        # a list that names no trait at all (only `dump`, or `dump` next to a shared bound): it shares its flags with nobody
        if rnd.random() < 0.2:
            lists.insert(rnd.randrange(len(lists) + 1), {"traits": [], "dump": True, "bare": rnd.choice(["", "", "bound(..)", "bound(u8: Copy, ..)"])})
        cases.append((kind, src, lists))
    # every ordered pair of traits, both dumped (per trait / through the shared flag), on a single-field struct and on an enum
    for kind, src, pool in (("struct", "struct X(u8);", ALL_TRAITS), ("enum", "enum X { #[default] A, B(u8) }", ENUM_TRAITS)):
        for A in pool:
            for B in pool:
                if A == B:
                    continue
                mode = (pool.index(A) + pool.index(B)) % 3
                if mode == 0:
                    lists = [{"traits": [{"t": A, "dump": True, "b": ""}, {"t": B, "dump": True, "b": ""}], "dump": False}]
                elif mode == 1:
                    lists = [{"traits": [{"t": A, "dump": False, "b": ""}, {"t": B, "dump": False, "b": ""}], "dump": True}]
                else:
                    lists = [{"traits": [{"t": A, "dump": True, "b": ""}], "dump": False}, {"traits": [{"t": B, "dump": True, "b": ""}], "dump": True}]
                cases.append((kind, src, lists))

    def render(lists, with_dump):
        parts = []
        for L in lists:
            xs = []
            for x in L["traits"]:
                args = []
                if x.get("b"):
                    args.append(x["b"])
                if with_dump and x["dump"]:
                    args.append("dump")
                xs.append("%s(%s)" % (x["t"], ", ".join(args)) if args else x["t"])
            if L.get("bare"):
                xs.append(L["bare"])
            if with_dump and L["dump"]:
                xs.append("dump")
            parts.append(", ".join(xs))
        return parts
    reqs = []
    for kind, src, lists in cases:
        for wd in (False, True):
            parts = render(lists, wd)
            item = " ".join("#[derive_ex(%s)]" % p for p in parts[1:]) + " " + src
            entry = "attr"
            reqs.append({"k": "expand", "id": len(reqs), "entry": entry, "attr": parts[0], "item": item, "tokens": True})
    resps = dx.expand(reqs)
    # normalise payloads and group tokens
    events, tokreq, tokmap = [], [], []
    for ci, (kind, src, lists) in enumerate(cases):
        plain, dumped = resps[2 * ci], resps[2 * ci + 1]
        traits = [x["t"] for L in lists for x in L["traits"]]
        gp, okp = entry_groups(plain, "attr", traits)
        gd, okd = entry_groups(dumped, "attr", traits)
        built = [bool(g) and g[0]["kind"] != "compile_error" for g in gp]
        classes, payload_ok, same = [], [], []
        for i, t in enumerate(traits):
            g = gd[i] if i < len(gd) else []
            if g and g[0]["kind"] == "compile_error" and (g[0].get("msg") or "").startswith("dump:\n"):
                classes.append("dump")
                tokreq.append({"k": "tokens", "id": len(tokreq), "src": g[0]["msg"][len("dump:\n"):]})
                tokreq.append({"k": "tokens", "id": len(tokreq), "src": " ".join(x["tokens"] for x in gp[i])})
                tokmap.append((len(events), i, len(tokreq) - 2))
                payload_ok.append(None)
                same.append(False)
            elif g and g[0]["kind"] == "compile_error":
                classes.append("error")
                payload_ok.append(False)
                same.append([x["hash"] for x in g] == [x["hash"] for x in gp[i]])
            else:
                classes.append("impl" if g else "missing")
                payload_ok.append(False)
                same.append([x["hash"] for x in g] == [x["hash"] for x in gp[i]] and bool(g))
        item_equal = bool(plain.get("items")) and bool(dumped.get("items")) and plain["items"][0]["hash"] == dumped["items"][0]["hash"] \
            and plain["items"][0]["kind"] in ("struct", "enum")
        # whole-derivation failure (e.g. an operator trait on an enum): a single error and no impl at all
        pit = plain.get("items", [])[1:]
        whole = len(traits) > 1 and len(pit) == 1 and pit[0]["kind"] == "compile_error"
        same_whole = [x["hash"] for x in pit] == [x["hash"] for x in dumped.get("items", [])[1:]]
        events.append({"ev": "dump", "lists": lists, "built": built, "classes": classes if (okp and okd) else ["unparsed"],
                       "payload_ok": payload_ok, "same": same, "item_equal": item_equal, "whole_fail": whole, "same_whole": same_whole})
    # dump on impl items
    impl_cases = []
    for op in (["Add", "Sub", "BitOr"] if tier == "quick" else bf.BINOPS):
        for (sl, rr) in itertools.product(("", "&"), repeat=2):
            s = "impl ::core::ops::%s<%sX> for %sX { type Output = X; fn f(self, r: %sX) -> X { todo!() } }" % (op, rr, sl, rr)
            for args in ([op], [op + "Assign"], [op, op + "Assign"]):
                impl_cases.append((s, args))
        for rr in ("", "&"):
            impl_cases.append(("impl ::core::ops::%sAssign<%sX> for X { fn f(&mut self, r: %sX) { } }" % (op, rr, rr), [op]))
    ireq = []
    for s, args in impl_cases:
        ireq.append({"k": "expand", "id": 0, "entry": "attr", "attr": ", ".join(args), "item": s, "tokens": True})
        ireq.append({"k": "expand", "id": 1, "entry": "attr", "attr": ", ".join(args + ["dump"]), "item": s, "tokens": True})
    ir = dx.expand(ireq)
    impl_ev_start = len(events)
    for k in range(0, len(ir), 2):
        plain, dumped = ir[k], ir[k + 1]
        errs = [x for x in dumped.get("items", [])[1:] if x["kind"] == "compile_error"]
        is_err = len(errs) == 1 and len(dumped.get("items", [])) == 2 and (errs[0].get("msg") or "").startswith("dump:\n")
        if is_err:
            tokreq.append({"k": "tokens", "id": len(tokreq), "src": errs[0]["msg"][len("dump:\n"):]})
            tokreq.append({"k": "tokens", "id": len(tokreq), "src": " ".join(x["tokens"] for x in plain["items"][1:])})
            tokmap.append((len(events), None, len(tokreq) - 2))
        events.append({"ev": "impldump", "is_error": is_err, "payload_ok": None if is_err else False,
                       "item_equal": bool(plain.get("items")) and bool(dumped.get("items")) and plain["items"][0]["hash"] == dumped["items"][0]["hash"]})
    toks = dx.expand(tokreq) if tokreq else []
    for (ei, i, tk) in tokmap:
        ok = "flat" in toks[tk] and toks[tk].get("flat") == toks[tk + 1].get("flat")
        if i is None:
            events[ei]["payload_ok"] = ok
        else:
            events[ei]["payload_ok"][i] = ok
    n, bad, jst = dx.tlc_judge("Trace_Exp", "Trace_Exp.cfg", events, "c19", chunk=max(500, -(-len(events) // 8)))
    ck.add_judge(n, jst)
    for i in bad:
        e = events[i]
        if e["ev"] == "impldump":
            s, args = impl_cases[i - impl_ev_start]
            ck.violation({"kind": "impldump", "args": "+".join(args), "is_error": e["is_error"], "payload_ok": e["payload_ok"]},
                         {"event": e, "item": s, "args": args})
        else:
            kind, src, lists = cases[i]
            nl = len(lists)
            sig = {"kind": "dump", "lists": nl, "shared": [L["dump"] for L in lists], "classes": e["classes"], "item_equal": e["item_equal"]}
            ck.violation(sig, {"what": "dump does not show exactly the generated code / changes something else", "event": e, "item": src,
                               "request_plain": reqs[2 * i], "request_dump": reqs[2 * i + 1]})
    ck.sample({"request": reqs[1], "classes": events[0]["classes"]})
    ck.cov["evaluations"] = len(events)
    ck.cov["distinct_nontrivial"] = len(set(json.dumps([e.get("lists"), e.get("classes")]) for e in events))
    ck.cov["rule"] = "seeded random trait lists (1-2 lists, per-trait and shared dump flags) on 6 item shapes, each expanded with and without dump; dump on impl items for every base form; payload re-lexed and compared token for token"
    return ck.finish()


# ------------------------------------------------------------------------------------------------
# C16
# ------------------------------------------------------------------------------------------------
def doc_blocks(path):
    txt = open(path).read()
    out = []
    for m in re.finditer(r"```rust\n(.*?)```", txt, re.S):
        code = "\n".join(l[2:] if l.startswith("# ") else ("" if l.strip() == "#" else l) for l in m.group(1).splitlines())
        out.append(code)
    return out


def c16(tier):
    ck = dx.Check("C16", tier, level="exploration")
    if not model_attrs(ck):
        return ck.finish()
    files = sorted(glob.glob(os.path.join(dx.REPO, "derive-ex-tests", "tests", "*.rs")) +
                   glob.glob(os.path.join(dx.REPO, "derive-ex-tests", "tests", "compile_fail", "*", "*.rs")))
    creq = [{"k": "corpus", "id": i, "path": f} for i, f in enumerate(files)]
    for b in doc_blocks(os.path.join(dx.REPO, "doc", "derive_ex.md")) + doc_blocks(os.path.join(dx.REPO, "README.md")):
        creq.append({"k": "corpus", "id": len(creq), "src": "fn main() {\n" + b + "\n}" if "fn main" not in b else b})
        creq.append({"k": "corpus", "id": len(creq), "src": b})
    corpus, seen = [], set()
    for r in dx.expand(creq):
        for c in r.get("corpus", []):
            key = (c["attr"], c["item"])
            if key not in seen:
                seen.add(key)
                corpus.append(c)
    # generator output joins the corpus
    rnd = random.Random(dx.seed())
    import checks_bnd
    for P in rnd.sample(checks_bnd.c04_items("quick", rnd), 300):
        a, it = bf.item_parts(P)
        corpus.append({"attr": a, "item": it})
    if len(corpus) < 200:
        raise dx.ToolError("seed corpus too small: %d" % len(corpus))
    N = 40000 if tier == "quick" else 600000
    mreq = []
    for i in range(N):
        c = rnd.choice(corpus)
        donors = rnd.sample(corpus, 2)
        mreq.append({"k": "mutate", "id": i, "attr": c["attr"], "item": c["item"], "seed": dx.seed() * 1000003 + i, "steps": rnd.choice([1, 1, 2, 3, 5]),
                     "donors": donors})
    muts = dx.expand(mreq)
    ereq = []
    for i, m in enumerate(muts):
        ereq.append({"k": "expand", "id": 2 * i, "entry": "attr", "attr": m["attr"], "item": m["item"], "twice": True})
        ereq.append({"k": "expand", "id": 2 * i + 1, "entry": "derive", "attr": "", "item": "#[derive_ex(%s)] %s" % (m["attr"], m["item"]), "twice": True})
    # the whole comparison matrix (every field configuration x closed trait set, one shape): refusals and acceptances alike must be
    # the same tokens when expanded twice (messages and spans included)
    import checks_cmp
    mcfgs, _st = checks_cmp.mc_cfgs(ck, tier, dsets="closed")
    mshapes = cf.shapes("quick")
    for k, c in enumerate(mcfgs):
        P = mshapes[k % len(mshapes)][1](c["c"])
        body = cf.item_src(P, c["D"], "T", "distinct", "attr")
        ereq.append({"k": "expand", "id": len(ereq), "entry": "attr" if k % 2 else "derive", "attr": ", ".join(c["D"]) if k % 2 else "",
                     "item": body[body.index("]") + 1:] if k % 2 else "#[derive_ex(%s)] %s" % (", ".join(c["D"]), body[body.index("]") + 1:]), "twice": True})
    for c in corpus:      # the unmutated seeds as well
        ereq.append({"k": "expand", "id": len(ereq), "entry": "attr", "attr": c["attr"], "item": c["item"], "twice": True})
        ereq.append({"k": "expand", "id": len(ereq), "entry": "derive", "attr": "", "item": "#[derive_ex(%s)] %s" % (c["attr"], c["item"]), "twice": True})
    # history independence: a sample of the requests is repeated at the END of the same run of the observer (same process,
    # other worker threads, after tens of thousands of other expansions) - the output must be the same
    nrep = min(len(ereq), 8000)
    rep_idx = random.Random(dx.seed() + 9).sample(range(len(ereq)), nrep)
    resps_all = dx.expand(ereq + [ereq[i] for i in rep_idx])
    resps = resps_all[:len(ereq)]
    later = {i: resps_all[len(ereq) + k] for k, i in enumerate(rep_idx)}
    events, idx = [], []
    for i, r in enumerate(resps):
        if r.get("class") == "unlexable":
            continue              # not a token stream: outside the property's quantifier
        has_msg = all(bool(x.get("msg")) for x in r.get("items", []) if x["kind"] == "compile_error")
        det = bool(r.get("det", False)) and (i not in later or later[i].get("out_hash") == r.get("out_hash"))
        events.append({"ev": "total", "class": r.get("class"), "det": det, "has_message": has_msg})
        idx.append(i)
    # inputs inside the descriptor language: the full prediction (whole-derivation vs per-entry failure) applies as well
    oev, ometa = own_events(ck, tier, rnd)
    iev, imeta = own_impl_events(tier, rnd)
    oev, ometa = oev + iev, ometa + imeta
    n_total = len(events)
    events = events + oev
    n, bad, jst = dx.tlc_judge("Trace_Exp", "Trace_Exp.cfg", events, "c16", chunk=max(1000, -(-len(events) // 12)))
    ck.add_judge(n, jst)
    ck.notes["own_error_events"] = len(oev)
    for b in [x for x in bad if x >= n_total]:
        e, q = oev[b - n_total], ometa[b - n_total]
        if e["ev"] == "ownimpl":
            ck.violation({"kind": "own_impl", "ikind": e["I"]["ikind"], "args": "+".join(e["I"]["args"]), "output": e["I"]["output"], "nimpl": e["nimpl"], "nerr": e["nerr"]},
                         {"what": "impl item: refusal / number of generated impls differs from DxExpand", "request": q, "event": e})
            continue
        P = e["P"]
        sig = {"kind": "own_error", "item": P["kind"], "anomaly": (P["anomalies"] or [{}])[0].get("h", "") + ":" + (P["anomalies"] or [{}])[0].get("what", ""),
               "syntax_ok": P["syntax_ok"], "nimpl": min(e["nimpl"], 1), "entry": e["entry"]}
        ck.violation(sig, {"what": "whole-derivation / per-entry failure differs from DxExpand", "request": q, "event": e})
    for b in [x for x in bad if x < n_total]:
        r, q = resps[idx[b]], ereq[idx[b]]
        sig = {"kind": r.get("class"), "det": r.get("det"), "panic": (r.get("panic") or "")[:80], "entry": q["entry"]}
        ck.violation(sig, {"what": "expansion panicked / produced unparsable output / differs between two runs", "request": q, "response": {k: v for k, v in r.items() if k != "items"}})
    classes = {}
    for e in events:
        if e["ev"] == "total":
            classes[e["class"]] = classes.get(e["class"], 0) + 1
    ck.notes["classes"] = classes
    ck.notes["corpus"] = len(corpus)
    ck.sample({"mutant": ereq[0], "class": resps[0].get("class")})
    ck.sample({"mutant": ereq[len(ereq) // 3], "class": resps[len(ereq) // 3].get("class")})
    ck.cov["evaluations"] = len(events)
    ck.cov["distinct_nontrivial"] = len(set(r.get("out_hash") for r in resps if r.get("out_hash")))
    ck.cov["rule"] = "structure-aware mutants (delete / duplicate / swap / move / insert attributes, arguments, fields, variants, generics; splice between seeds; struct<->enum; other item kinds) of every derive_ex item in the test-suite, the documentation and generator output, through both entry points, each expanded twice; distinct = distinct expansion outputs"
    return ck.finish()


# ------------------------------------------------------------------------------------------------
# own errors (DxExpand): whole-derivation vs per-entry failure, for inputs inside the descriptor language
# ------------------------------------------------------------------------------------------------
def own_case(rnd):
    r = rnd.random()
    kind = "struct" if r < 0.45 else "enum" if r < 0.9 else "union" if r < 0.95 else "other"
    traits = rnd.sample(ALL_TRAITS, rnd.choice([1, 1, 2, 3]))
    if rnd.random() < 0.1:
        traits.insert(rnd.randrange(len(traits) + 1), "Foo")
    if kind == "enum" and rnd.random() < 0.6:
        traits = [t for t in traits if t in ENUM_TRAITS or t == "Foo"] or ["Clone"]
    syntax_ok = rnd.random() > 0.07
    nfields = rnd.choice([0, 1, 1, 2, 3])
    nvariants = rnd.choice([0, 1, 1, 2, 3]) if kind == "enum" else 1
    nmarked = rnd.choice([0, 1, 1, 2]) if kind == "enum" else 0
    nmarked = min(nmarked, nvariants)
    ntransp = rnd.choice([0, 0, 1, 2]) if nfields >= 2 else rnd.choice([0, 1]) if nfields == 1 else 0
    anomalies = []
    if rnd.random() < 0.35 and kind in ("struct", "enum"):
        h = rnd.choice(HELPER_NAMES + ["derive_ex"])
        at = rnd.choice(["type", "field"] + (["variant"] if kind == "enum" else []))
        if h == "derive_ex":
            at = rnd.choice(["field"] + (["variant"] if kind == "enum" else []))
            what = rnd.choice(["unknown_trait", "bad_arg"])
        else:
            what = rnd.choice(["twice", "name_value", "bad_arg"])
        if at == "field" and nfields == 0:
            at = "type" if h != "derive_ex" else None
        if at:
            anomalies.append({"h": h, "what": what, "at": at})
    P = {"kind": kind, "syntax_ok": syntax_ok, "traits": traits, "nfields": nfields, "anomalies": anomalies, "ntransp": ntransp,
         "nmarked": nmarked, "nvariants": nvariants}
    args, item = own_source(P, rnd)
    return P, args, item


def own_source(P, rnd):
    """Rust source for an abstract pipeline descriptor (DxExpand / MC_Expand).  May normalise P (empty enum)."""
    kind, traits, syntax_ok, anomalies = P["kind"], P["traits"], P["syntax_ok"], P["anomalies"]
    nfields, ntransp, nvariants, nmarked = P["nfields"], P["ntransp"], P["nvariants"], P["nmarked"]
    def anomaly_src(a):
        h = a["h"]
        if h == "derive_ex":
            return "#[derive_ex(Foo)]" if a["what"] == "unknown_trait" else "#[derive_ex(Clone Debug)]"
        ok = {"debug": "#[debug(bound())]", "default": "#[default(_, bound())]"}.get(h, "#[%s(bound())]" % h)
        if a["what"] == "twice":
            return ok + " " + ok
        if a["what"] == "name_value":
            return "#[%s = 1]" % h
        return {"default": "#[default(1, 2)]", "debug": "#[debug(ignroe)]"}.get(h, "#[%s(nonsense)]" % h)
    at = {"type": "", "variant": "", "field": ""}
    for a in anomalies:
        at[a["at"]] += anomaly_src(a) + " "

    def fields(n, transp, anom):
        fs = []
        for j in range(n):
            a = ("#[debug(transparent)] " if j < transp else "") + (anom if j == n - 1 else "")
            fs.append("%sf%d: u8" % (a, j))
        return "{ %s }" % ", ".join(fs)
    if kind == "struct":
        item = "%sstruct X %s" % (at["type"], fields(nfields, ntransp, at["field"]))
    elif kind == "enum":
        vs = []
        if nvariants == 0:
            nfields, ntransp = 0, 0
            P["nfields"], P["ntransp"] = 0, 0
            anomalies[:] = [a for a in anomalies if a["at"] == "type"]
            at["variant"], at["field"] = "", ""
        for vi in range(nvariants):
            mark = "#[default] " if vi < nmarked else ""
            va = at["variant"] if vi == 0 else ""
            if vi == 0:
                vs.append("%s%sV0 %s" % (mark, va, fields(nfields, ntransp, at["field"]) if nfields else ""))
            else:
                vs.append("%sV%d" % (mark, vi))
        item = "%senum X { %s }" % (at["type"], ", ".join(vs))
    elif kind == "union":
        item = "union X { a: u8, b: u16 }"
    else:
        item = rnd.choice(["fn x() {}", "trait X {}", "mod x {}", "type X = u8;", "static X: u8 = 0;"])
    dump = P.get("dump", "none")
    names = list(traits)
    if dump == "first":
        names[0] = names[0] + "(dump)"
    if dump == "all":
        names.append("dump")
    args = (", " if syntax_ok else " ").join(names) if (syntax_ok or len(names) > 1) else names[0] + " +"
    return args, item


def own_impl_events(tier, rnd):
    """impl items: which requests are refused, how many impls are generated"""
    cases = []
    ops = bf.BINOPS
    for n in range(800 if tier == "quick" else 8000):
        ikind = rnd.choice(["bin", "bin", "bin", "assign", "assign", "inherent", "negative", "non_op"])
        op = rnd.choice(ops)
        other = rnd.choice([o for o in ops if o != op])
        args, src_args = [], []
        for _ in range(rnd.choice([0, 1, 1, 2, 2, 3])):
            a = rnd.choice(["bin", "bin", "assign", "assign", "other_op", "unknown"])
            args.append(a)
            src_args.append({"bin": op, "assign": op + "Assign", "other_op": rnd.choice([other, other + "Assign"]), "unknown": rnd.choice(["Clone", "Foo", "Neg"])}[a])
        syntax_ok = rnd.random() > 0.05
        output = rnd.random() > 0.15
        sl, rr = rnd.choice(["", "&"]), rnd.choice(["", "&"])
        if ikind == "bin":
            item = "impl ::core::ops::%s<%sY> for %sX { %s fn f(self, r: %sY) -> X { todo!() } }" % (op, rr, sl, "type Output = X;" if output else "", rr)
        elif ikind == "assign":
            item = "impl ::core::ops::%sAssign<%sY> for X { fn f(&mut self, r: %sY) { } }" % (op, rr, rr)
            output = True
        elif ikind == "inherent":
            item = "impl X { fn f(&self) {} }"
        elif ikind == "negative":
            item = "impl !::core::ops::%s<Y> for X {}" % op
        else:
            item = "impl ::core::clone::Clone for X { fn clone(&self) -> X { todo!() } }"
        I = {"ikind": ikind, "args": args, "output": bool(output), "syntax_ok": syntax_ok}
        cases.append((I, ", ".join(src_args) + ("" if syntax_ok else " +"), item))
    reqs = []
    for I, a, item in cases:
        reqs.append({"k": "items", "id": 0, "src": item})
        reqs.append({"k": "expand", "id": 1, "entry": "attr", "attr": a, "item": item})
    rs = dx.expand(reqs)
    events, meta = [], []
    for k, (I, a, item) in enumerate(cases):
        rin, r = rs[2 * k], rs[2 * k + 1]
        items = r.get("items", [])
        present = bool(items) and items[0]["kind"] == "impl"
        events.append({"ev": "ownimpl", "I": I, "item_present": present, "item_equal": bool(present and rin["items"] and items[0]["hash"] == rin["items"][0]["hash"]),
                       "nimpl": sum(1 for x in items[1:] if x["kind"] == "impl"), "nerr": sum(1 for x in items[1:] if x["kind"] == "compile_error")})
        meta.append(reqs[2 * k + 1])
    pe, pm = impl_pipe_events(rnd)
    return events + pe, meta + pm


def impl_forms_of(items):
    out = []
    for x in items:
        if x["kind"] != "impl":
            continue
        t = (x.get("trait") or "").split("::")[-1]
        ta = (x.get("trait_args") or [""])
        r = "r" if (ta and ta[0].lstrip().startswith("&")) else "v"
        if t.endswith("Assign"):
            out.append(["assign", "m", r])
        else:
            out.append(["bin", "r" if (x.get("self_ty") or "").lstrip().startswith("&") else "v", r])
    return out


def impl_pipe_events(rnd):
    """every terminal state of the MC_ExpandImpl machine, replayed into the real expander (all ten operators in turn)"""
    st, outp = dx.tlc_run("MC_ExpandImpl", "MC_ExpandImpl.cfg", "mc_expand_impl", workers=2)
    if not st["ok"]:
        raise dx.ToolError("MC_ExpandImpl does not hold: %s (%s)" % (st.get("violated"), outp))
    vecs = dx.parse_prints(open(outp).read(), "IMPLPIPE")
    if not vecs:
        raise dx.ToolError("MC_ExpandImpl printed no IMPLPIPE vector")
    ops = bf.BINOPS
    cases = []
    for n, v in enumerate(vecs):
        I = dict(v["I"])
        I["args"] = list(I["args"])
        for op in (ops[n % len(ops)], ops[(n + 3) % len(ops)]):
            other = ops[(ops.index(op) + 1 + n % 8) % len(ops)]
            src_args = [{"bin": op, "assign": op + "Assign", "other_op": other + ("Assign" if n % 2 else ""), "unknown": ["Clone", "Foo", "Neg"][n % 3]}[a] for a in I["args"]]
            sl, rr = ("&" if I["bl"] == "r" else ""), ("&" if I["br"] == "r" else "")
            ik = I["ikind"]
            # the right operand left to the trait's default (`impl Add for X`) or written as an empty list (`impl Add<> for X`): Rhs = Self
            rhs_form = ["explicit", "default", "explicit", "empty"][(n + ops.index(op)) % 4] if (I["bl"] == I["br"] or ik == "assign") else "explicit"
            if ik == "assign" and I["br"] == "r":
                rhs_form = "explicit"
            targ = {"explicit": "<%sY>" % rr, "default": "", "empty": "<>"}[rhs_form]
            rty = ("%sY" % rr) if rhs_form == "explicit" else "Self"
            if ik == "bin":
                item = "impl ::core::ops::%s%s for %sX { %s fn f(self, r: %s) -> X { todo!() } }" % (op, targ, sl, "type Output = X;" if I["output"] else "", rty)
            elif ik == "assign":
                item = "impl ::core::ops::%sAssign%s for X { fn f(&mut self, r: %s) { } }" % (op, targ, rty)
            elif ik == "inherent":
                item = "impl X { fn f(&self) {} }"
            elif ik == "negative":
                item = "impl !::core::ops::%s<Y> for X {}" % op
            else:
                item = "impl ::core::clone::Clone for X { fn clone(&self) -> X { todo!() } }"
            cases.append((I, ", ".join(src_args) + ("" if I["syntax_ok"] else " +"), item, v))
    reqs = []
    for I, a, item, v in cases:
        reqs.append({"k": "items", "id": 0, "src": item})
        reqs.append({"k": "expand", "id": 1, "entry": "attr", "attr": a, "item": item})
    rs = dx.expand(reqs)
    events, meta = [], []
    for k, (I, a, item, v) in enumerate(cases):
        rin, r = rs[2 * k], rs[2 * k + 1]
        items = r.get("items", [])
        present = bool(items) and items[0]["kind"] == "impl"
        events.append({"ev": "ownimpl", "I": I, "item_present": present, "item_equal": bool(present and rin["items"] and items[0]["hash"] == rin["items"][0]["hash"]),
                       "nimpl": sum(1 for x in items[1:] if x["kind"] == "impl"), "nerr": sum(1 for x in items[1:] if x["kind"] == "compile_error"),
                       "forms": impl_forms_of(items[1:]), "mech": {"err": v["err"], "n": v["n"]}})
        meta.append(reqs[2 * k + 1])
    return events, meta


def own_events(ck, tier, rnd):
    N = 6000 if tier == "quick" else 60000
    cases = [own_case(rnd) for _ in range(N)]
    reqs = []
    for P, args, item in cases:
        reqs.append({"k": "expand", "id": len(reqs), "entry": "attr", "attr": args, "item": item})
        if P["kind"] != "other":        # a derive macro can only sit on struct / enum / union
            reqs.append({"k": "expand", "id": len(reqs), "entry": "derive", "attr": "", "item": "#[derive_ex(%s)] %s" % (args, item)})
    resps = dx.expand(reqs)
    events, meta = [], []
    ri = 0
    for P, args, item in cases:
        for entry in (("attr", "derive") if P["kind"] != "other" else ("attr",)):
            r = resps[ri]
            q = reqs[ri]
            ri += 1
            events.append(own_event(P, entry, r))
            meta.append(q)
    pe, pm = pipe_events(ck, tier, rnd)
    return events + pe, meta + pm


def own_event(P, entry, r):
    items = r.get("items", [])
    present = entry == "derive" or (bool(items) and items[0]["kind"] != "compile_error")
    gen = items[1:] if entry == "attr" and present else items
    nerr = sum(1 for x in gen if x["kind"] == "compile_error")
    nimpl = sum(1 for x in gen if x["kind"] == "impl")
    groups, ok = entry_groups(r, entry if present else "derive", P["traits"])

    def cls(g):
        if not g:
            return "missing"
        if g[0]["kind"] == "compile_error":
            return "dump" if (g[0].get("msg") or "").startswith("dump:") else "error"
        return "impl"
    classes = [cls(g) for g in groups] if ok else ["unparsed"]
    return {"ev": "own", "P": P, "entry": entry, "nimpl": nimpl, "nerr": nerr, "classes": classes, "item_present": bool(present),
            "class": r.get("class")}


def pipe_events(ck, tier, rnd):
    """every terminal state of the MC_Expand pipeline machine, replayed into the real expander"""
    cfg = "MC_Expand.cfg" if tier == "quick" else "MC_Expand_large.cfg"
    st, outp = dx.tlc_run("MC_Expand", cfg, "mc_expand_" + ("small" if tier == "quick" else "large"), workers=8, timeout=7200)
    if not st["ok"]:
        ck.violation({"kind": "model", "module": "MC_Expand", "invariants": st["violated"]}, {"tlc_output": outp, "tail": open(outp).read()[-2000:]})
        return [], []
    ck.add_model(st)
    vecs = dx.parse_prints(open(outp).read(), "PIPE")
    ck.notes["pipeline_model"] = {"module": "MC_Expand", "cfg": cfg, "states": st.get("distinct"), "terminal_states": len(vecs), "cached": st.get("cached")}
    if not vecs:
        raise dx.ToolError("MC_Expand printed no PIPE vector")
    cap = 60000 if tier == "quick" else 400000
    if len(vecs) > cap:
        vecs = rnd.sample(vecs, cap)
    reqs, cases = [], []
    for v in vecs:
        P = dict(v["P"])
        P["traits"], P["anomalies"] = list(P["traits"]), list(P["anomalies"])
        args, item = own_source(P, rnd)
        if v["entry"] == "attr":
            reqs.append({"k": "expand", "id": len(reqs), "entry": "attr", "attr": args, "item": item})
        else:
            reqs.append({"k": "expand", "id": len(reqs), "entry": "derive", "attr": "", "item": "#[derive_ex(%s)] %s" % (args, item)})
        cases.append((P, v))
    resps = dx.expand(reqs)
    events = []
    for (P, v), r in zip(cases, resps):
        e = own_event(P, v["entry"], r)
        # the machine's own terminal state must agree with what the judge will derive from P (checked by TLC: MechIsDoc);
        # carried along so that a replay shows both
        e["mech"] = {"err": v["err"], "out": list(v["out"])}
        events.append(e)
    ck.notes["pipeline_replayed"] = len(events)
    return events, reqs
