"""Checks of the bounds family: C03 (default bounds) and C04 (explicit bound(...) priority)."""
import copy, itertools, json, os, random
import dxlib as dx
import cmpfam as cf
import bndfam as bf

A3 = ["absent", "empty", "Pdd"]
A4 = ["absent", "empty", "P", "Pdd"]
A6 = ["absent", "empty", "P", "dd", "Pdd", "T"]
A7 = A6 + ["Tdd"]
A9 = A7 + ["ddP", "ddT"]            # `..` written first

TY_T = {"k": "param", "i": 1}
TY_OPT = {"k": "app", "c": "Option", "args": [{"k": "param", "i": 1}]}
TY_VEC = {"k": "app", "c": "Vec", "args": [{"k": "param", "i": 1}]}
TY_U8 = {"k": "conc", "n": 0}


def model(ck, fam):
    st, outp = dx.tlc_run("MC_Bounds", "MC_Bounds_%s.cfg" % fam, "mc_bounds_" + fam, timeout=7200, workers=12)
    if not st["ok"]:
        ck.violation({"kind": "model", "family": fam, "invariants": st["violated"], "errors": st["errors"]},
                     {"what": "TLC found the bound-resolution design in violation (MC_Bounds)", "tlc_output": outp,
                      "tail": open(outp).read()[-3000:]})
        return False
    ck.add_model(st)
    ck.notes.setdefault("model", []).append({"module": "MC_Bounds", "family": fam, "states": st.get("distinct"), "depth": st.get("depth"),
                                             "cached": st.get("cached"), "tlc_wall_s": st.get("wall_s"),
                                             "properties": "Progress MechIsDoc DeclRetained DefaultIsUsedFields ScopeIsolation GrowOnly FlagNeverReturns"})
    return True


def nine_item(t, ch, helper):
    """enum, two variants; nine levels on (type, variant 1, field 1.1); variant 2 carries nothing"""
    def ls(a, b, c):
        return bf.LS({helper: a} if helper else None, b, c)
    v1 = {"shape": "tuple", "dmark": t == "Default", "vb": ls(ch[3], ch[4], ch[5]),
          "fields": [bf.fld(TY_T, ls(ch[6], ch[7], ch[8]))]}
    v2 = {"shape": "named", "dmark": False, "vb": bf.LS(), "fields": [bf.fld(TY_OPT)]}
    return bf.mkP("enum", t, [v1, v2], decl=1, tb=ls(ch[0], ch[1], ch[2]))


def six_item(t, ch, kind="enum"):
    """traits without helper attribute: per-trait / shared argument at type, variant, field"""
    if kind == "enum":
        v1 = {"shape": "tuple", "vb": bf.LS(None, ch[2], ch[3]), "fields": [bf.fld(TY_T, bf.LS(None, ch[4], ch[5])), bf.fld(TY_VEC)]}
        v2 = {"shape": "named", "fields": [bf.fld(TY_OPT)]}
        return bf.mkP("enum", t, [v1, v2], decl=1, tb=bf.LS(None, ch[0], ch[1]))
    v1 = {"shape": "named", "fields": [bf.fld(TY_T, bf.LS(None, ch[2], ch[3])), bf.fld(TY_OPT)]}
    return bf.mkP("struct", t, [v1], decl=1, tb=bf.LS(None, ch[0], ch[1]))


def cmp_level_items(t, tier, rnd):
    """comparison trait t: bound(...) on the helper attributes that affect t at type, variant and field level"""
    chain = {"PartialEq": ["partial_eq", "eq", "partial_ord", "ord"], "Eq": ["eq", "ord"], "PartialOrd": ["partial_ord", "ord"],
             "Ord": ["ord"], "Hash": ["hash", "eq", "ord"]}[t]
    D = ["Ord", "PartialOrd", "Eq", "PartialEq", "Hash"]
    out = []
    alpha = A4
    combos = list(itertools.product(alpha, repeat=len(chain)))
    for place in ("type", "variant", "field"):
        for combo in combos:
            h = dict(zip(chain, combo))
            for th in (("absent",) if tier == "quick" else ("absent", "Pdd")):
                if place == "type":
                    P = bf.mkP("struct", t, [{"shape": "tuple", "fields": [bf.fld(TY_T), bf.fld(TY_OPT)]}], D=D, tb=bf.LS(h, th))
                elif place == "variant":
                    P = bf.mkP("enum", t, [{"shape": "tuple", "vb": bf.LS(h, th), "fields": [bf.fld(TY_T)]},
                                           {"shape": "tuple", "fields": [bf.fld(TY_OPT)]}], D=D)
                else:
                    P = bf.mkP("struct", t, [{"shape": "named", "fields": [bf.fld(TY_T, bf.LS(h, th)), bf.fld(TY_OPT)]}], D=D)
                out.append(P)
    # key / by on a higher-priority attribute cuts the lower attributes' bounds off (field level)
    for sel_attr in chain:
        for s in ("key", "by"):
            if t == "Hash" and s == "by" and sel_attr != "hash":
                continue
            for combo in itertools.product(["absent", "P", "Pdd"], repeat=len(chain)):
                h = dict(zip(chain, combo))
                cmp = cf.plain()
                cmp[sel_attr] = {"ign": False, "rev": False, "sel": s}
                # every other derived trait needs its own customisation, else derive_ex refuses them (fine: only t is looked at)
                P = bf.mkP("struct", t, [{"shape": "named", "fields": [bf.fld(TY_T, bf.LS(h, "Pdd"), cmp=cmp), bf.fld(TY_OPT)]}], D=D)
                out.append(P)
    return out


def c04_items(tier, rnd):
    Ps = []
    alpha9 = A3 if tier == "quick" else A4
    for t, helper in (("Debug", "debug"), ("Default", "default")):
        for ch in itertools.product(alpha9, repeat=9):
            Ps.append(nine_item(t, ch, helper))
        # the full six-letter alphabet (incl. bound(..) and bound(Ty)) on a seeded sample of the 6^9 space
        for _ in range(3000 if tier == "quick" else 40000):
            Ps.append(nine_item(t, [rnd.choice(A9) for _ in range(9)], helper))
            if rnd.random() < 0.3:
                Ps[-1]["conc_ty"] = True
            # the marker predicates in other spellings (higher-ranked, parenthesised / tuple / projected subject, path-spelled bound,
            # bound with generic arguments, a trailing comma in the list): a predicate is carried over verbatim whatever it looks like
            if rnd.random() < 0.35:
                Ps[-1]["pred_form"] = rnd.choice(["hrtb", "paren", "tuple", "path", "bound_args", "trailing_comma"])
            # ... and the Type entries (a fn-pointer type that starts with a binder, parenthesised, a reference, a qualified path, a trait object)
            if not Ps[-1].get("conc_ty") and rnd.random() < 0.3:
                Ps[-1]["ty_form"] = rnd.choice(["binder_fn", "paren", "ref", "qpath", "dyn"])
    # fields whose usage state suppresses the DEFAULT bound still contribute their explicit levels:
    # #[default(expr)] with bound(...), on structs and on the default variant of enums
    for ch in itertools.product(A4, repeat=4):
        for kind in ("struct", "enum"):
            f = bf.fld(TY_T, bf.LS({"default": ch[0]}, ch[1], ch[2]), dval=True)
            if kind == "struct":
                Ps.append(bf.mkP("struct", "Default", [{"shape": "tuple", "fields": [f, bf.fld(TY_OPT)]}], tb=bf.LS(None, ch[3])))
            else:
                Ps.append(bf.mkP("enum", "Default", [{"shape": "unit", "fields": []},
                                                     {"shape": "named", "dmark": True, "vb": bf.LS(None, ch[3]), "fields": [f, bf.fld(TY_OPT)]}]))
    for ch in itertools.product(A4, repeat=4):
        for kind in ("struct", "enum"):
            f = bf.fld(TY_T, bf.LS({"debug": ch[0]}, ch[1], ch[2]), dbg="transparent")
            other = bf.fld(TY_OPT, dbg="ignore") if ch[3] in ("empty", "P") else bf.fld(TY_OPT)
            if kind == "struct":
                Ps.append(bf.mkP("struct", "Debug", [{"shape": "named", "fields": [other, f]}], tb=bf.LS(None, ch[3])))
            else:
                Ps.append(bf.mkP("enum", "Debug", [{"shape": "tuple", "vb": bf.LS(None, ch[3]), "fields": [f, other]}, {"shape": "unit", "fields": []}]))
    for t in ("Clone", "Copy", "PartialEq", "Eq", "PartialOrd", "Ord", "Hash", "Debug", "Default"):
        alpha = A4 if tier == "quick" else A6
        if t in ("Debug", "Default"):
            continue
        for ch in itertools.product(alpha, repeat=6):
            P = six_item(t, ch)
            if t in cf.TRAITS:
                P["D"] = [t]
            Ps.append(P)
    for t in ("Add", "SubAssign", "Neg", "Not", "Shl", "BitXorAssign", "Clone", "Copy", "Deref", "DerefMut"):
        for ch in itertools.product(A7 if tier == "thorough" else A6, repeat=4):
            P = six_item(t, ch, "struct")
            if t in ("Deref", "DerefMut"):
                P["variants"][0]["fields"] = P["variants"][0]["fields"][:1]
            Ps.append(P)
            # now and then next to a second list (before / after) that derives another trait with a shared bound of its own
            if len(Ps) % 9 == 0 and t not in ("Deref", "DerefMut"):
                P2 = copy.deepcopy(P)
                P2["other_list"] = {"pos": "before" if len(Ps) % 2 else "after", "t": "Debug" if t != "Debug" else "Clone", "dd": len(Ps) % 3 == 0}
                Ps.append(P2)
    for t in ("Clone", "PartialEq", "Hash", "Debug", "Default"):
        for ch in itertools.product(A3, repeat=6):
            if t in ("Debug", "Default"):
                P = nine_item(t, list(ch[:3]) + ["absent"] * 3 + list(ch[3:]), {"Debug": "debug", "Default": "default"}[t])
            else:
                P = six_item(t, ch)
                if t in cf.TRAITS:
                    P["D"] = [t]
            P["other_list"] = {"pos": "before" if (len(Ps) % 2) else "after", "t": "Copy" if t == "Clone" else "Clone", "dd": len(Ps) % 3 == 0}
            Ps.append(P)
    for t in cf.TRAITS:
        Ps += cmp_level_items(t, tier, rnd)
    # variant levels on a variant WITHOUT fields (unit, `()`, `{}`): they count all the same; and `..` written first
    primary = {"Debug": "debug", "Default": "default", "PartialEq": "partial_eq", "Eq": "eq", "PartialOrd": "partial_ord", "Ord": "ord", "Hash": "hash"}
    for t in ("Clone", "Copy", "PartialEq", "Eq", "PartialOrd", "Ord", "Hash", "Debug", "Default"):
        h = primary.get(t)
        for shape in ("unit", "tuple", "named"):
            for ch in itertools.product(["absent", "empty", "P", "ddP"], repeat=4):
                for carrier_default in ((False, True) if t == "Default" else (False,)):
                    # (a `#[default(..)]` helper on a variant marks it as the default one: only the marked carrier may carry it)
                    hh = h if (t != "Default" or carrier_default) else None
                    v0 = {"shape": shape, "dmark": carrier_default, "vb": bf.LS({hh: ch[0]} if hh else None, ch[1], ch[2]), "fields": []}
                    v1 = {"shape": "tuple", "dmark": t == "Default" and not carrier_default, "fields": [bf.fld(TY_T)]}
                    P = bf.mkP("enum", t, [v0, v1], decl=1, tb=bf.LS(None, ch[3]))
                    if t in cf.TRAITS:
                        P["D"] = [t]
                    Ps.append(P)
                    # the carrier in second position as well
                    P2 = bf.mkP("enum", t, [dict(v1), dict(v0)], decl=1, tb=bf.LS(None, ch[3]))
                    if t in cf.TRAITS:
                        P2["D"] = [t]
                    Ps.append(P2)
    return Ps


def judge_where(ck, tag, Ps, entries=("attr", "derive")):
    amap = bf.AtomMap()
    events, reqs = bf.observe_where(Ps, amap, entries)
    n, bad, jst = dx.tlc_judge("Trace_Bounds", "Trace_Bounds.cfg", events, tag, chunk=max(1000, -(-len(events) // 12)))
    ck.add_judge(n, jst)
    return events, reqs, bad


def level_sig(P):
    """compact signature of where the explicit bounds sit"""
    def ls(x, sid):
        out = []
        for a in bf.HELPERS:
            if x["h"][a] != "absent":
                out.append("%s.h.%s=%s" % (sid, a, x["h"][a]))
        for k in ("this", "common"):
            if x[k] != "absent":
                out.append("%s.%s=%s" % (sid, k, x[k]))
        return out
    out = ls(P["tb"], "t")
    for vi, v in enumerate(P["variants"]):
        out += ls(v["vb"], "v%d" % (vi + 1))
        for j, f in enumerate(v["fields"]):
            out += ls(f["b"], "f%d.%d" % (vi + 1, j + 1))
    return " ".join(out)


def bug_class(P, ev):
    """coarse class of a mismatch (for grouping / known-finding matching): which tags are missing / extra is not
    computed here (that would need the expectation); we key on trait, kind and which scopes carry explicit bounds"""
    scopes = set(x.split(".")[0][0] + (".h" if ".h." in x else "") for x in level_sig(P).split())
    return {"kind": "where", "trait": P["t"], "item": P["kind"], "entry": ev["entry"], "scopes": "+".join(sorted(scopes))}


def c04(tier):
    ck = dx.Check("C04", tier)
    for fam in (("nine3", "cmpq") if tier == "quick" else ("nine4", "cmp")):
        if not model(ck, fam):
            return ck.finish()
    rnd = random.Random(dx.seed())
    Ps = c04_items(tier, rnd)
    dx.log("C04: %d items" % len(Ps))
    # in batches: the thorough tier has about a million items (two expansions each); memory stays bounded
    BATCH = 150000
    nev, distinct = 0, set()
    for b0 in range(0, len(Ps), BATCH):
        events, reqs, bad = judge_where(ck, "c04", Ps[b0:b0 + BATCH])
        for i in bad:
            e = events[i]
            sig = bug_class(e["P"], e)
            ck.violation(sig, {"what": "where-clause of the generated impl differs from DocWhere (nine-level priority)",
                               "levels": level_sig(e["P"]), "request": reqs[i], "observed_tags": e["impls"], "nerr": e["nerr"]})
        if b0 == 0:
            for i in (0, len(events) // 2, len(events) - 1):
                ck.sample({"request": reqs[i]["item"][:300], "attr": reqs[i]["attr"], "observed_tags": events[i]["impls"]})
        nev += len(events)
        distinct |= set(json.dumps(e["impls"]) + e["P"]["t"] for e in events)
        del events, reqs
    ck.cov["evaluations"] = nev
    ck.cov["distinct_nontrivial"] = len(distinct)
    ck.cov["rule"] = ("all assignments of the tier's alphabet to the nine levels (Debug, Default on enums), six levels (helper-less traits on enums), "
                      "four levels (struct-only traits), all assignments to the comparison helper chains at type/variant/field level and key/by cut-offs, "
                      "plus a seeded sample of the 7-letter alphabet; both entry points; distinct = distinct (trait, observed tag sets)")
    ck.cov["exhaustive"] = True
    ck.assumptions += ["where-clauses are compared as sets of normalised `Type : Bound` atoms mapped to origin tags",
                       "explicit bounds on ignored / transparent-shadowed fields are not generated (the documentation leaves them open)"]
    return ck.finish()


# ------------------------------------------------------------------------------------------------
# C03: default bounds = used field types that mention a type / const parameter
# ------------------------------------------------------------------------------------------------
def ty_pool(params):
    """type expressions over params (list of kinds); indices are 1-based positions"""
    tys = [i + 1 for i, p in enumerate(params) if p["k"] == "type"]
    cons = [i + 1 for i, p in enumerate(params) if p["k"] == "const"]
    lts = [i + 1 for i, p in enumerate(params) if p["k"] == "lifetime"]
    T = lambda i: {"k": "param", "i": i}
    app = lambda c, *a: {"k": "app", "c": c, "args": list(a)}
    pool = [{"k": "conc", "n": 0}, {"k": "conc", "n": 1}, {"k": "abs", "n": 0}, app("::core::option::Option", {"k": "conc", "n": 0})]
    for t in tys:
        pool += [T(t), app("::core::option::Option", T(t)), app("::std::vec::Vec", T(t)), app("::std::boxed::Box", T(t)),
                 app("::std::rc::Rc", T(t)), app("::core::marker::PhantomData", T(t)),
                 {"k": "tuple", "args": [T(t), {"k": "conc", "n": 0}]},
                 {"k": "array", "of": T(t), "len": 0}, {"k": "fn", "args": [T(t)], "ret": {"k": "conc", "n": 0}},
                 {"k": "ptr", "of": T(t)}, {"k": "assoc", "i": t, "n": 0}, {"k": "qassoc", "of": T(t), "n": 0},
                 app("::std::vec::Vec", app("::core::option::Option", T(t))),
                 # a type from elsewhere whose last path segment is the name of the annotated item itself (`X`): not a self-reference
                 app("::dx_support::samename::X", T(t))]
        for l in lts:
            pool.append({"k": "ref", "lt": l, "of": T(t)})
        for c in cons:
            pool.append({"k": "array", "of": T(t), "len": c})
        for t2 in tys:
            if t2 != t:
                pool.append({"k": "tuple", "args": [T(t), T(t2)]})
                pool.append({"k": "fn", "args": [T(t)], "ret": T(t2)})
    for c in cons:
        pool.append({"k": "array", "of": {"k": "conc", "n": 0}, "len": c})
        # a const parameter as a generic ARGUMENT: bare (syn reads a type path) and braced (an expression)
        pool.append({"k": "cgen", "len": c, "braced": False})
        pool.append({"k": "cgen", "len": c, "braced": True})
    for l in lts:
        pool.append({"k": "ref", "lt": l, "of": {"k": "conc", "n": 1}})
    return pool


def closure_of(t):
    if t == "Ord":
        return ["Ord", "PartialOrd", "Eq", "PartialEq"]
    if t == "PartialOrd":
        return ["PartialOrd", "PartialEq"]
    if t == "Eq":
        return ["Eq", "PartialEq"]
    if t == "Copy":
        return ["Copy", "Clone"]
    if t == "DerefMut":
        return ["Deref", "DerefMut"]
    return [t]


def usage_states(t):
    """(tag, field-modifier) pairs: ways a field can be (un)used by trait t"""
    st = [("used", lambda f: f)]
    if t == "Debug":
        st += [("dbg_ignore", lambda f: dict(f, dbg="ignore")), ("dbg_transparent", lambda f: dict(f, dbg="transparent"))]
    if t == "Default":
        st += [("dval", lambda f: dict(f, dval=True)), ("tval", lambda f: f)]
    if t in cf.TRAITS:
        def with_ord(o):
            def m(f):
                c = cf.plain()
                c["ord"] = o
                return dict(f, cmp=c)
            return m
        st += [("cmp_ignore", with_ord({"ign": True, "rev": False, "sel": "none"})),
               ("cmp_key", with_ord({"ign": False, "rev": False, "sel": "key"}))]
        if t != "Hash":
            st += [("cmp_by", with_ord({"ign": False, "rev": False, "sel": "by"}))]
        if t in ("Ord", "PartialOrd"):
            st += [("cmp_reverse", with_ord({"ign": False, "rev": True, "sel": "none"}))]
    return st


ALL_TRAITS = ["Clone", "Copy", "Debug", "Default", "Ord", "PartialOrd", "Eq", "PartialEq", "Hash", "Deref", "DerefMut",
              "Neg", "Not"] + bf.BINOPS + [b + "Assign" for b in bf.BINOPS]


def mentions_param(ty, i):
    return ('"i": %d' % i) in json.dumps(ty) or ('"len": %d' % i) in json.dumps(ty) or ('"lt": %d' % i) in json.dumps(ty)


def pool_for(t, ps):
    """types a field may have under trait t such that the USER side of the program is well-typed:
    concrete (parameter-free) types must implement the trait themselves"""
    pool = ty_pool(ps)
    strict_conc = t in bf.BINOPS or t in bf.UNOPS or t.endswith("Assign") or t in ("Copy",)

    def ok(ty):
        txt = json.dumps(ty)
        concrete = not any(p in txt for p in ('"param"', '"assoc"', '"array"'))
        has_tp = '"param"' in txt or '"assoc"' in txt
        if ("samename" in txt or '"cgen"' in txt) and (strict_conc or t in ("Deref", "DerefMut")):
            return False                # (the wrapper implements the nine basic traits only)
        if strict_conc:
            if ty["k"] == "conc":
                return True            # rendered as i8 for these traits
            if not has_tp and '"len"' not in txt:
                return False
            if ty["k"] == "array" and ty["of"]["k"] == "conc":
                return False           # [u8; N] mentions N but arrays have no operators: user error, not ours
        if t == "Default" and not has_tp:
            if ty["k"] in ("ref", "ptr", "fn"):
                return False
            if ty["k"] == "array":
                return False
        if t in ("Default",) and ty["k"] == "array" and ty["of"]["k"] == "conc":
            return False
        return True
    return [x for x in pool if ok(x)]


def c03_items(tier, rnd):
    Ps = []
    param_sets = [[{"k": "type"}],
                  [{"k": "type"}, {"k": "type"}, {"k": "const"}],
                  [{"k": "lifetime"}, {"k": "type"}, {"k": "const"}]]
    for t in ALL_TRAITS:
        enum_ok = t in ("Clone", "Copy", "Debug", "Default") + tuple(cf.TRAITS)
        for ps in param_sets:
            pool = pool_for(t, ps)
            for ty in pool:
                for stag, mod in usage_states(t):
                    # all field types of an item are pairwise different, so that every where-atom has one origin
                    others = [x for x in pool if x != ty]
                    kinds = ["struct"] + (["enum"] if enum_ok else [])
                    for kind in kinds:
                        f1 = mod(bf.fld(copy.deepcopy(ty)))
                        chosen = [ty]
                        extra = []
                        # every parameter must occur in some field (else the user's item is ill-formed: E0392)
                        for pi in range(1, len(ps) + 1):
                            if not any(mentions_param(x, pi) for x in chosen):
                                cands = [x for x in others if mentions_param(x, pi) and x not in chosen]
                                c = rnd.choice(cands)
                                chosen.append(c)
                                extra.append(bf.fld(copy.deepcopy(c)))
                        if not extra:
                            c = rnd.choice([x for x in others if x not in chosen])
                            chosen.append(c)
                            extra.append(bf.fld(copy.deepcopy(c)))
                        third = rnd.choice([x for x in others if x not in chosen])
                        if t in ("Deref", "DerefMut"):
                            if len(extra) > 1 or any(not mentions_param(ty, pi) for pi in range(1, len(ps) + 1)):
                                continue
                            fields = [f1]
                        elif stag == "dbg_transparent":
                            fields = extra + [f1]
                        else:
                            fields = [f1] + extra if rnd.random() < 0.5 else extra + [f1]
                        decl = 1 if rnd.random() < 0.3 else 0
                        params = copy.deepcopy(ps)
                        if kind == "struct":
                            P = bf.mkP("struct", t, [{"shape": rnd.choice(["named", "tuple"]), "fields": fields}],
                                       D=closure_of(t), params=params, decl=decl)
                        else:
                            v_other = {"shape": "tuple", "fields": [bf.fld(copy.deepcopy(third))]}
                            v_main = {"shape": rnd.choice(["named", "tuple"]), "fields": fields, "dmark": t == "Default"}
                            vs = [v_main, v_other] if rnd.random() < 0.5 else [v_other, v_main]
                            P = bf.mkP("enum", t, vs, D=closure_of(t), params=params, decl=decl)
                        # T::Assoc / <T as Tr>::Assoc need T: Tr for the item to be well-formed
                        if "assoc" in json.dumps(P["variants"]):
                            for p in P["params"]:
                                if p["k"] == "type":
                                    p["inline"] = "::dx_support::Tr"
                        # a declared INLINE bound that mentions `Self` (it must keep meaning the item type in every generated impl)
                        if len(Ps) % 5 == 0:
                            for p in P["params"]:
                                if p["k"] == "type":
                                    p["inline"] = (p["inline"] + " + " if p.get("inline") else "") + "::dx_support::Rel<Self>"
                                    break
                        if stag == "tval":
                            P["tval"] = True
                        P["strict"] = True
                        P["usage"] = stag
                        P["conc"] = "int" if (t in bf.BINOPS or t in bf.UNOPS or t.endswith("Assign") or t == "Copy") else "any"
                        Ps.append(P)
                        # Clone with Copy derived next to it (before / after it in the list): the Clone impl keeps its own default bounds
                        if t == "Clone" and len(Ps) % 3 == 0:
                            P3 = copy.deepcopy(P)
                            P3["D"] = ["Copy", "Clone"] if len(Ps) % 2 else ["Clone", "Copy"]
                            P3["conc"] = "int"
                            P3["usage"] = str(stag) + "+copy"
                            Ps.append(P3)
                        # the same item with every USE of a parameter spelled as a raw identifier (`r#T1`): it is the same parameter
                        if len(Ps) % 6 == 0:
                            P2 = copy.deepcopy(P)
                            P2["raw_use"] = True
                            Ps.append(P2)
    return Ps


def c03_program(P):
    """a compilable program: the generic item with its derived impls (nothing is instantiated)"""
    attr, item = bf.item_parts(P)
    decls = "".join("trait Dcl%d {}\n" % k for k in range(1, P["decl"] + 1))
    return "#![allow(dead_code, unused)]\n%s#[::derive_ex::derive_ex(%s)] %s\n" % (decls, attr, item)


def c03(tier):
    ck = dx.Check("C03", tier)
    if not model(ck, "nine3" if tier == "quick" else "nine4"):
        return ck.finish()
    rnd = random.Random(dx.seed())
    Ps = c03_items(tier, rnd)
    if tier == "thorough":
        for s in range(3):
            Ps += c03_items(tier, random.Random(dx.seed() * 1000 + s))
    dx.log("C03: %d items" % len(Ps))
    events, reqs, bad = judge_where(ck, "c03", Ps)
    for i in bad:
        e = events[i]
        P = e["P"]
        ftys = sorted(set(f["ty"]["k"] for v in P["variants"] for f in v["fields"]))
        sig = {"kind": "default_where", "trait": P["t"], "item": P["kind"], "usage": P.get("usage"), "types": "+".join(ftys), "nerr": e["nerr"] > 0}
        ck.violation(sig, {"what": "default where-clause differs from 'used field types that mention a parameter'",
                           "request": reqs[i], "observed_tags": e["impls"], "nerr": e["nerr"]})
    # (iii) the generic impl itself type-checks: compile every distinct program (attribute entry)
    progs = {}
    for P in Ps:
        progs.setdefault(c03_program(P), P)
    wd = os.path.join(dx.WORK, "c03-%d" % os.getpid())
    plist = sorted(progs.items())
    if tier == "quick" and len(plist) > 2500:
        plist = random.Random(dx.seed()).sample(plist, 2500)
    # possibly unsized last fields (`?Sized` written inline, in a where-clause, as the last argument of a wrapper; str / slice tails):
    # the default bounds never include `Sized`, so the generated bodies must not need it
    for tag, traits, item in C20_SPECIAL:
        if tag.startswith("unsized_") or tag.startswith("raw_param_unsized"):
            head, _, rest = item.partition("\n")
            P0 = {"t": traits.split(",")[0], "kind": "struct", "usage": tag, "variants": []}
            plist.append(("#![allow(dead_code, unused)]\n#[::derive_ex::derive_ex(%s)] %s\n%s\n" % (traits, head, rest), P0))

    def comp(ix):
        i, (src, P) = ix
        ok, diags = dx.check_only("g%d" % i, src, wd)
        return ok, dx.diag_summary(diags)[:3]
    res = dx.pmap(comp, list(enumerate(plist)))
    import shutil
    shutil.rmtree(wd, ignore_errors=True)
    cev = [{"ev": "compiles", "rustc_ok": ok} for ok, _ in res]
    n2, bad2, jst2 = dx.tlc_judge("Trace_Bounds", "Trace_Bounds.cfg", cev, "c03c")
    ck.add_judge(n2, jst2)
    for i in bad2:
        src, P = plist[i]
        codes = ",".join(sorted(set(d.get("code") or "?" for d in res[i][1])))
        ftys = sorted(set(f["ty"]["k"] for v in P["variants"] for f in v["fields"]))
        sig = {"kind": "generic_impl_does_not_compile", "trait": P["t"], "item": P["kind"], "usage": P.get("usage"), "codes": codes, "types": "+".join(ftys)}
        ck.violation(sig, {"what": "the derived generic impl does not type-check with its default bounds", "source": src, "diagnostics": res[i][1]})
    ck.notes["programs_compiled"] = len(plist)
    # (ii) behavioural: trait-solver bit matrix, derived impl vs twin impl carrying TLC's where-clause
    nprobe = c03_probe(ck, tier, Ps)
    for i in (0, len(events) // 2, len(events) - 1):
        ck.sample({"request": reqs[i]["item"][:300], "attr": reqs[i]["attr"], "observed_tags": events[i]["impls"]})
    ck.cov["evaluations"] = len(events) + len(cev) + nprobe
    ck.cov["distinct_nontrivial"] = len(set(json.dumps(e["impls"]) + e["P"]["t"] for e in events))
    ck.cov["rule"] = ("every derivable trait x 3 parameter lists (type / type,type,const / lifetime,type,const) x type pool (~20 expressions per type parameter) "
                      "x usage states of the field x struct/enum; where-atom sets through both entry points, and every distinct generic program compiled with rustc")
    ck.cov["exhaustive"] = False
    return ck.finish()


# ------------------------------------------------------------------------------------------------
# C20: whatever expansion accepts without an error of its own type-checks (no error, no warning)
# ------------------------------------------------------------------------------------------------
C20_SPECIAL = [
    ("empty_enum_all", "Clone, Copy, Debug, PartialEq, Eq, PartialOrd, Ord, Hash", "pub enum X {}"),
    ("empty_enum_generic", "Clone, Debug, PartialEq, Eq, PartialOrd, Ord, Hash", "pub enum X<T> { #[allow(dead_code)] V(::core::convert::Infallible, T) }"),
    ("single_variant", "Clone, Debug, Default, PartialEq, Eq, PartialOrd, Ord, Hash", "pub enum X<T> { Only { a: T, b: u8 } }"),
    ("single_unit_variant", "Clone, Copy, Debug, Default, PartialEq, Eq, PartialOrd, Ord, Hash", "pub enum X { Only }"),
    ("where_self_eq", "Eq, PartialEq", "pub struct X<T> where Self: ::core::marker::Sized, T: ::core::marker::Copy { pub a: T }"),
    ("where_self_all", "Clone, Debug, Default, PartialEq, Eq, PartialOrd, Ord, Hash", "pub struct X<T> where Self: ::core::marker::Sized { pub a: T }"),
    ("where_self_ops", "Add, SubAssign, Neg", "pub struct X<T> where Self: ::core::marker::Sized { pub a: T }"),
    ("param_H_hash", "Hash, PartialEq", "pub struct X<H>(pub H);"),
    ("param_T_eq", "Eq, PartialEq", "pub struct X<T>(pub T);"),
    ("lifetime_a_cmp", "Clone, Debug, PartialEq, Eq, PartialOrd, Ord, Hash", "pub struct X<'a, T>(pub &'a T);"),
    ("lifetime_a_add_ref", "Add", "pub struct X<'a>(pub W<'a>);\n#[derive(Clone, Copy)] pub struct W<'a>(pub &'a u8);\nimpl<'a> ::core::ops::Add<W<'a>> for W<'a> { type Output = W<'a>; fn add(self, _: W<'a>) -> W<'a> { self } }\nimpl<'a, 'b> ::core::ops::Add<&'b W<'a>> for W<'a> { type Output = W<'a>; fn add(self, _: &'b W<'a>) -> W<'a> { self } }\nimpl<'a, 'b> ::core::ops::Add<W<'a>> for &'b W<'a> { type Output = W<'a>; fn add(self, _: W<'a>) -> W<'a> { *self } }\nimpl<'a, 'b, 'c> ::core::ops::Add<&'c W<'a>> for &'b W<'a> { type Output = W<'a>; fn add(self, _: &'c W<'a>) -> W<'a> { *self } }"),
    ("const_param_default", "Clone, Debug, Default, PartialEq, Eq, Hash", "pub struct X<T = u8, const N: usize = 2> { pub a: [T; N], pub b: [u8; N] }"),
    ("param_defaults_eq", "Eq, PartialEq, Ord, PartialOrd", "pub enum X<T = ::std::string::String, const N: usize = 4> { A(T), B([u8; N]) }"),
    ("unsized_tail_debug", "Debug, PartialEq, Eq, PartialOrd, Ord, Hash", "pub struct X<T: ?Sized> { pub head: u8, pub tail: T }"),
    ("unsized_slice_tail", "Debug, PartialEq, Eq, PartialOrd, Ord, Hash", "pub struct X(pub u8, pub [u8]);"),
    ("by_first_middle_last_eq", "PartialEq", "pub struct X { #[partial_eq(by = |a, b| a == b)] pub a: u8, #[partial_eq(by = |a, b| a == b)] pub b: u8, #[partial_eq(by = |a, b| a == b)] pub c: u8 }"),
    ("by_middle_all", "Ord, PartialOrd, Eq, PartialEq, Hash", "pub struct X { pub a: u8, #[ord(by = |a: &u8, b: &u8| a.cmp(b))] #[hash(by = |a: &u8, s| ::core::hash::Hash::hash(a, s))] pub b: u8, pub c: u8 }"),
    ("by_partial_ord_first", "PartialOrd, PartialEq", "pub struct X { #[partial_ord(by = |a: &u8, b: &u8| a.partial_cmp(b))] pub a: u8, pub b: u8, pub c: u8 }"),
    ("by_ord_first_enum", "Ord, PartialOrd, Eq, PartialEq", "pub enum X { A(#[ord(by = |a: &u8, b: &u8| a.cmp(b))] u8, u8), B { #[ord(by = |a: &u8, b: &u8| a.cmp(b))] x: u8, y: u8 } }"),
    ("by_eq_named_middle", "Eq, PartialEq, Hash", "pub struct X { pub a: u8, #[eq(by = |a: &u8, b: &u8| a == b)] #[hash(key = $)] pub long_name: u8, pub c: u8 }"),
    ("by_all_named", "Ord, PartialOrd, Eq, PartialEq, Hash", "pub struct X { #[ord(by = |a: &u8, b: &u8| a.cmp(b))] #[hash(by = |a: &u8, s| ::core::hash::Hash::hash(a, s))] pub first_field: u8, #[partial_ord(by = |a: &u8, b: &u8| a.partial_cmp(b))] #[ord(by = |a: &u8, b: &u8| a.cmp(b))] #[hash(ignore)] pub second: u8 }"),
    ("by_generic_field", "Ord, PartialOrd, Eq, PartialEq", "pub struct X<T: ::core::cmp::Ord> { #[ord(by = |a: &T, b: &T| a.cmp(b))] pub a: T, pub b: u8 }"),
    ("by_generic_enum", "PartialOrd, PartialEq", "pub enum X<T: ::core::cmp::PartialOrd> { A(#[partial_ord(by = |a: &T, b: &T| a.partial_cmp(b))] T, u8), B }"),
    ("hash_by_generic", "Hash", "pub struct X<T: ::core::hash::Hash>(#[hash(by = |a: &T, s| ::core::hash::Hash::hash(a, s))] pub T);"),
    ("key_generic_explicit_bound", "Ord, PartialOrd, Eq, PartialEq, Hash", "pub struct X<T> { #[ord(key = $.len(), bound(T: ::core::marker::Sized))] pub a: ::std::vec::Vec<T> }"),
    # user expressions that rely on the bound written next to them (field level), nothing repeated elsewhere
    ("default_expr_needs_field_bound", "Default", "pub struct X<T> { #[default(T::new(), bound(T: New))] pub value: T, pub n: u8 }\npub trait New { fn new() -> Self; fn weight(&self) -> u8; }"),
    ("default_expr_needs_nested_bound", "Default", "pub struct X<T> { #[derive_ex(Default(bound(T: New)))] #[default(T::new())] pub value: T }\npub trait New { fn new() -> Self; fn weight(&self) -> u8; }"),
    ("default_expr_needs_nested_common_bound", "Default, Clone", "pub struct X<T: ::core::clone::Clone> { #[derive_ex(Default, bound(T: New))] #[default(T::new())] pub value: T }\npub trait New { fn new() -> Self; fn weight(&self) -> u8; }"),
    ("default_expr_needs_field_bound_enum", "Default", "pub enum X<T> { #[default] A { #[default(T::new(), bound(T: New))] v: T, w: u8 }, B }\npub trait New { fn new() -> Self; fn weight(&self) -> u8; }"),
    ("default_expr_needs_variant_bound", "Default", "pub enum X<T> { B, #[default(_, bound(T: New))] A(#[default(T::new())] T) }\npub trait New { fn new() -> Self; fn weight(&self) -> u8; }"),
    ("default_expr_needs_type_bound", "Default", "#[default(_, bound(T: New))] pub struct X<T>(#[default(T::new())] pub T, #[default(7)] pub u8);\npub trait New { fn new() -> Self; fn weight(&self) -> u8; }"),
    ("key_needs_field_bound", "Ord, PartialOrd, Eq, PartialEq, Hash", "pub struct X<T> { #[ord(key = $.weight(), bound(T: New))] pub a: T, pub b: u8 }\npub trait New { fn new() -> Self; fn weight(&self) -> u8; }"),
    ("key_needs_type_bound", "PartialOrd, PartialEq", "#[partial_ord(bound(T: New))] pub enum X<T> { A(#[partial_ord(key = $.weight())] T), B }\npub trait New { fn new() -> Self; fn weight(&self) -> u8; }"),
    ("by_needs_field_bound", "PartialEq, Eq", "pub struct X<T> { pub b: u8, #[eq(by = |a: &T, b: &T| a.weight() == b.weight(), bound(T: New))] pub a: T }\npub trait New { fn new() -> Self; fn weight(&self) -> u8; }"),
    # `by` helpers on a dynamically sized last field, one per helper attribute and trait that can inherit it
    ("by_unsized_partial_eq", "PartialEq", "pub struct X { pub a: u8, #[partial_eq(by = |a: &[f64], b: &[f64]| a == b)] pub tail: [f64] }"),
    ("by_unsized_eq", "Eq, PartialEq", "pub struct X { pub a: u8, #[eq(by = |a: &[u8], b: &[u8]| a == b)] pub tail: [u8] }"),
    ("by_unsized_partial_ord", "PartialOrd, PartialEq", "pub struct X { pub a: u8, #[partial_ord(by = |a: &[f64], b: &[f64]| a.partial_cmp(b))] pub tail: [f64] }"),
    ("by_unsized_partial_ord_generic", "PartialOrd, PartialEq", "pub struct X<T: ?::core::marker::Sized + ::core::cmp::PartialOrd> { pub a: u8, #[partial_ord(by = |a: &T, b: &T| a.partial_cmp(b))] pub tail: T }"),
    ("by_unsized_ord", "Ord, PartialOrd, Eq, PartialEq", "pub struct X { pub a: u8, #[ord(by = |a: &str, b: &str| a.cmp(b))] pub tail: str }"),
    ("by_unsized_hash", "Hash", "pub struct X(pub u8, #[hash(by = |a: &[u8], s| ::core::hash::Hash::hash(a, s))] pub [u8]);"),
    ("key_unsized_tail", "Ord, PartialOrd, Eq, PartialEq, Hash", "pub struct X { pub a: u8, #[ord(key = $.len())] pub tail: str }"),
    ("stop_first_variant_clone", "Clone", "pub enum X<T, U> { #[derive_ex(Clone(bound()))] Marker(::core::marker::PhantomData<T>), Value(U), Pair(u8, U) }"),
    ("stop_first_field_clone", "Clone", "pub struct X<T, U>(#[derive_ex(Clone(bound()))] pub ::core::marker::PhantomData<T>, pub U, pub ::core::option::Option<U>);"),
    ("stop_first_variant_debug", "Debug", "pub enum X<T, U> { #[derive_ex(Debug(bound()))] Marker(::core::marker::PhantomData<T>), Value(U), Pair(u8, U) }"),
    ("stop_first_field_debug", "Debug", "pub struct X<T, U>(#[derive_ex(Debug(bound()))] pub ::core::marker::PhantomData<T>, pub U, pub ::core::option::Option<U>);"),
    ("stop_first_variant_default", "Default", "pub enum X<T, U> { #[default] #[derive_ex(Default(bound()))] Marker(::core::marker::PhantomData<T>), Value(U), Pair(u8, U) }"),
    ("stop_first_field_default", "Default", "pub struct X<T, U>(#[derive_ex(Default(bound()))] pub ::core::marker::PhantomData<T>, pub U, pub ::core::option::Option<U>);"),
    ("stop_first_variant_peq", "PartialEq", "pub enum X<T, U> { #[derive_ex(PartialEq(bound()))] Marker(::core::marker::PhantomData<T>), Value(U), Pair(u8, U) }"),
    ("stop_first_field_peq", "PartialEq", "pub struct X<T, U>(#[derive_ex(PartialEq(bound()))] pub ::core::marker::PhantomData<T>, pub U, pub ::core::option::Option<U>);"),
    ("stop_first_variant_eq", "Eq, PartialEq", "pub enum X<T, U> { #[derive_ex(Eq(bound()), PartialEq(bound()))] Marker(::core::marker::PhantomData<T>), Value(U), Pair(u8, U) }"),
    ("stop_first_field_eq", "Eq, PartialEq", "pub struct X<T, U>(#[derive_ex(Eq(bound()), PartialEq(bound()))] pub ::core::marker::PhantomData<T>, pub U, pub ::core::option::Option<U>);"),
    ("stop_first_variant_pord", "PartialOrd, PartialEq", "pub enum X<T, U> { #[derive_ex(PartialOrd(bound()), PartialEq(bound()))] Marker(::core::marker::PhantomData<T>), Value(U), Pair(u8, U) }"),
    ("stop_first_field_pord", "PartialOrd, PartialEq", "pub struct X<T, U>(#[derive_ex(PartialOrd(bound()), PartialEq(bound()))] pub ::core::marker::PhantomData<T>, pub U, pub ::core::option::Option<U>);"),
    ("stop_first_variant_ord", "Ord, PartialOrd, Eq, PartialEq", "pub enum X<T, U> { #[derive_ex(Ord(bound()), PartialOrd(bound()), Eq(bound()), PartialEq(bound()))] Marker(::core::marker::PhantomData<T>), Value(U), Pair(u8, U) }"),
    ("stop_first_field_ord", "Ord, PartialOrd, Eq, PartialEq", "pub struct X<T, U>(#[derive_ex(Ord(bound()), PartialOrd(bound()), Eq(bound()), PartialEq(bound()))] pub ::core::marker::PhantomData<T>, pub U, pub ::core::option::Option<U>);"),
    ("stop_first_variant_hash", "Hash", "pub enum X<T, U> { #[derive_ex(Hash(bound()))] Marker(::core::marker::PhantomData<T>), Value(U), Pair(u8, U) }"),
    ("stop_first_field_hash", "Hash", "pub struct X<T, U>(#[derive_ex(Hash(bound()))] pub ::core::marker::PhantomData<T>, pub U, pub ::core::option::Option<U>);"),
    ("stop_first_variant_copy", "Copy, Clone", "pub enum X<T, U> { #[derive_ex(Copy(bound()), Clone(bound()))] Marker(::core::marker::PhantomData<T>), Value(U), Pair(u8, U) }"),
    ("stop_first_field_copy", "Copy, Clone", "pub struct X<T, U>(#[derive_ex(Copy(bound()), Clone(bound()))] pub ::core::marker::PhantomData<T>, pub U, pub ::core::option::Option<U>);"),
    ("raw_param_unsized_tail", "Debug, PartialEq, Eq, PartialOrd, Ord, Hash", "pub struct X<r#T: ?::core::marker::Sized>(pub u8, pub T);"),
    ("raw_param_unsized_where", "Debug, PartialEq, Hash", "pub struct X<r#Match> where r#Match: ?::core::marker::Sized { pub a: u8, pub b: r#Match }"),
    ("trait_object_fields", "Debug", "pub struct X<'a>(pub &'a (dyn ::core::fmt::Debug + Send), pub ::std::boxed::Box<dyn ::core::fmt::Debug + Send + 'a>, pub u8);"),
    ("trait_object_tail", "Debug", "pub struct X(pub u8, pub dyn ::core::fmt::Debug + Send);"),
    ("raw_use_of_param", "Clone, Debug, Default, PartialEq, Eq, PartialOrd, Ord, Hash", "pub struct X<T>(pub r#T, pub u8);"),
    ("raw_param_in_args", "Clone, Debug, Default, PartialEq, Hash", "pub enum X<r#Match> { #[default] A(::std::vec::Vec<r#Match>), B { v: ::core::option::Option<r#Match> } }"),
    ("raw_const_param_use", "Clone, Debug, PartialEq, Eq, Hash", "pub struct X<const N: usize>(pub [u8; r#N], pub u8);"),
    ("raw_param_ops", "Neg, Add, SubAssign", "pub struct X<T>(pub r#T);"),
    ("self_nested_in_where_eq", "Eq, PartialEq", "pub struct X<T> where ::core::option::Option<::std::boxed::Box<Self>>: ::core::marker::Sized { pub a: T }"),
    ("self_nested_in_inline_eq", "Eq, PartialEq, Clone", "pub struct X<T: ::dx_support::Rel<::std::vec::Vec<Self>>> { pub a: T }"),
    ("self_nested_ops", "Neg, Add, SubAssign", "pub struct X<T: ::dx_support::Rel<::std::vec::Vec<Self>>>(pub T) where ::core::option::Option<Self>: ::core::marker::Sized;"),
    ("self_projection_where", "Eq, PartialEq, Neg", "pub struct X<T>(pub T) where <Self as ::dx_support::Tr>::Assoc: ::core::marker::Sized, Self: ::dx_support::Tr;"),
    # `?Sized` relaxations written in every place a where-clause / parameter list allows
    ("unsized_where_second_predicate", "Debug, PartialEq, Eq, Hash", "pub struct X<T> where T: ::core::fmt::Debug, T: ?::core::marker::Sized { pub a: u8, pub tail: T }"),
    ("unsized_where_with_inline_bound", "Debug, PartialEq, PartialOrd", "pub struct X<T: ::core::cmp::PartialOrd>(pub u8, pub T) where T: ?::core::marker::Sized;"),
    ("unsized_where_plus_other", "Debug, Hash", "pub struct X<'a, T: ::core::cmp::PartialEq + 'a>(pub &'a u8, pub T) where T: ?::core::marker::Sized + ::core::fmt::Display;"),
    ("unsized_last_arg_of_wrapper", "Debug, PartialEq", "pub struct X<K, V: ?::core::marker::Sized> { pub a: u8, pub inner: Tagged<K, V> }\n#[derive(Debug, PartialEq)] pub struct Tagged<K, V: ?::core::marker::Sized>(pub K, pub V);"),
    ("unsized_eq_tail_str", "Eq, PartialEq", "pub struct X { pub a: u8, pub tail: str }"),
    ("unsized_eq_tail_param", "Eq, PartialEq, Ord, PartialOrd", "pub struct X<T: ?::core::marker::Sized>(pub u8, pub T);"),
    ("deref_dyn_with_lifetime", "Deref, DerefMut", "pub struct X<'a>(pub dyn ::core::fmt::Debug + 'a);"),
    ("deref_dyn_static", "Deref", "pub struct X { pub inner: dyn ::core::fmt::Debug + 'static }"),
    ("key_mentions_self", "Eq, PartialEq, Hash", "pub struct X { #[eq(key = Self::k(&$))] pub a: f64, pub b: u8 }\nimpl X { fn k(v: &f64) -> i64 { *v as i64 } }"),
    ("key_mentions_self_generic", "Ord, PartialOrd, Eq, PartialEq", "pub enum X<T> { A(#[ord(key = <Self>::k(&$))] T), B }\nimpl<T> X<T> { fn k(_v: &T) -> u8 { 0 } }"),
    # several lists on one item, each with its own shared bound (or none)
    ("stacked_lists_second_bound", "Clone", "#[derive_ex(Default, bound(T: ::core::default::Default))] pub struct X<T>(pub T, pub u8);"),
    ("stacked_lists_first_bound", "Clone, bound(T: ::core::clone::Clone)", "#[derive_ex(Default)] #[derive_ex(Debug, bound(T: ::core::fmt::Debug, ..))] pub struct X<T>(pub T, pub u8);"),
    ("stacked_lists_on_field", "Clone, Default", "pub struct X<T, U>(#[derive_ex(Clone(bound(T: ::core::clone::Clone)))] #[derive_ex(Default, bound(T: ::core::default::Default))] pub T, pub ::core::option::Option<U>);"),
    ("stacked_lists_enum", "PartialEq", "#[derive_ex(Clone, bound(T: ::core::clone::Clone))] #[derive_ex(Debug)] pub enum X<T> { A(T), B }"),
    # known findings D19 / D20 (see known_findings.json)
    ("deref_trait_object_field", "Deref, DerefMut", "pub struct X(pub dyn ::core::fmt::Debug);"),
    ("deref_trait_object_field_multi", "Deref", "pub struct X(pub dyn ::core::fmt::Debug + Send);"),
    ("packed_misaligned_fields", "Clone, Debug, PartialEq, Eq, PartialOrd, Ord, Hash", "#[repr(packed)] pub struct X(pub u32, pub u8);"),
    ("packed_aligned_one", "Clone, Debug, PartialEq, Eq, PartialOrd, Ord, Hash, Default", "#[repr(packed)] pub struct X(pub u8, pub [u8; 3], pub bool);"),
    ("raw_idents", "Clone, Debug, Default, PartialEq, Eq, PartialOrd, Ord, Hash", "pub struct r#X<r#T> { pub r#type: r#T, pub r#fn: u8 }"),
    ("raw_enum", "Clone, Debug, PartialEq, Eq, PartialOrd, Ord, Hash", "pub enum X { r#match { r#loop: u8 }, r#type(u8), r#Self_ }"),
    ("local_names_fields", "Clone, Debug, Default, PartialEq, Eq, PartialOrd, Ord, Hash, Add, AddAssign, Neg", "pub struct X { pub this: i8, pub other: i8, pub state: i8, pub f: i8, pub rhs: i8, pub source: i8, pub lhs: i8, pub o: i8 }"),
    ("local_names_variants", "Clone, Debug, PartialEq, Eq, PartialOrd, Ord, Hash", "pub enum X { this { other: u8, state: u8 }, to_index(u8), f }"),
    ("param_named_like_locals", "Clone, Debug, Default, PartialEq, Eq, PartialOrd, Ord, Hash", "pub struct X<this, other, state>(pub this, pub other, pub state);"),
    ("param_named_f_debug", "Debug", "pub struct X<f>(pub f);"),
    ("const_named_like_locals", "Clone, Debug, PartialEq, Eq, Hash", "pub struct X<const o: usize, const to_index: usize>(pub [u8; o], pub [u8; to_index]);"),
    ("nested_generics", "Clone, Debug, Default, PartialEq, Eq, PartialOrd, Ord, Hash", "pub struct X<T, U>(pub ::core::option::Option<(T, ::std::vec::Vec<U>)>, pub ::core::marker::PhantomData<fn(T) -> U>);"),
    ("deref_generic_where", "Deref, DerefMut", "pub struct X<T> where T: ::core::clone::Clone { pub inner: ::std::vec::Vec<T> }"),
    ("default_values", "Default", "pub enum X<T> { A, #[default] B { #[default(5)] a: u8, #[default(\"s\")] b: ::std::string::String, c: ::core::option::Option<T> } }"),
    ("debug_transparent_generic", "Debug", "pub enum X<T, U> { A(#[debug(transparent)] T, #[debug(ignore)] U), B { #[debug(ignore)] u: U } }"),
    ("copy_clone_generic", "Copy, Clone", "pub enum X<T> { A(::core::marker::PhantomData<T>), B(*const T), C(fn(T) -> T) }"),
    ("impl_ops_generic_self", "Add, AddAssign", "impl<T: ::core::clone::Clone> ::core::ops::Add<&G<T>> for &G<T> where G<T>: ::core::clone::Clone { type Output = G<T>; fn add(self, _r: &G<T>) -> G<T> { self.clone() } }\n#[derive(Clone)] pub struct G<T>(pub T);"),
    ("impl_ops_where_self", "Sub", "impl ::core::ops::Sub<Y> for Y where Self: ::core::clone::Clone { type Output = Self; fn sub(self, _r: Y) -> Self { self } }\n#[derive(Clone)] pub struct Y(pub u8);"),
    # Clone next to a Copy whose explicit bound Clone does not have (items with const- / lifetime-only parameters)
    ("clone_next_to_bounded_copy_const", "Clone, Copy(bound([u8; N]: Small))", "pub struct X<const N: usize>(pub [u8; N]);\npub trait Small {}\nimpl Small for [u8; 1] {}"),
    ("clone_next_to_bounded_copy_lifetime", "Copy(bound(&'a str: Plain)), Clone", "pub enum X<'a> { A(&'a str), B }\npub trait Plain {}\nimpl Plain for &'static str {}"),
    ("clone_next_to_bounded_copy_type", "Clone, Copy(bound(T: Small + ::core::marker::Copy))", "pub struct X<T>(pub T, pub u8);\npub trait Small {}\nimpl Small for u8 {}"),
    # the bound a key expression needs is supplied by a field-level #[derive_ex(..)] ON THE KEYED FIELD (priorities 8 and 9): the field's own
    # type is not bounded (it is not compared by its own impl), the explicit bounds still are
    ("key_needs_field_level_bound", "PartialEq, Eq, Hash", "pub struct X<T> { pub id: u8, #[eq(key = $.0)] #[derive_ex(PartialEq(bound(T)), Eq(bound(T)), Hash(bound(T)))] pub p: P<T> }\npub struct P<T>(pub T, pub fn() -> T);"),
    ("key_needs_field_level_common_bound_enum", "PartialOrd, PartialEq", "pub enum X<T> { A, B(#[partial_ord(key = $.0)] #[derive_ex(PartialOrd, PartialEq, bound(T))] P<T>) }\npub struct P<T>(pub T, pub fn() -> T);"),
    ("hash_key_needs_field_level_bound", "Hash", "pub struct X<T, U>(pub U, #[hash(key = $.0)] #[derive_ex(Hash(bound(T)))] pub P<T>);\npub struct P<T>(pub T, pub fn() -> T);"),
    ("ord_key_needs_field_level_bound", "Ord, PartialOrd, Eq, PartialEq", "pub struct X<T> { #[ord(key = &$.0)] #[derive_ex(Ord, PartialOrd, Eq, PartialEq, bound(T))] pub p: P<T>, pub z: u8 }\npub struct P<T>(pub T, pub fn() -> T);"),
    # literals of other kinds as default values; const parameters in EXPRESSION position of a field type (array length, braced const argument)
    ("default_bytes_slice", "Default", "pub struct X { #[default(b\"ab\")] pub a: &'static [u8], #[default(br\"c\")] pub b: &'static [u8], #[default(*b\"xy\")] pub c: [u8; 2], #[default(1.5e1)] pub d: f64, #[default(7u8)] pub e: u8, #[default('x')] pub f: char }"),
    ("const_in_expr_position", "Default, Clone, Debug, PartialEq", "pub struct X<const N: usize> { pub a: [u8; N], pub b: Wn<{ N }>, pub c: Wn<N> }\n"
     "#[derive(Clone, Debug, PartialEq)] pub struct Wn<const K: usize>;\nimpl ::core::default::Default for Wn<0> { fn default() -> Self { Wn } }\nimpl ::core::default::Default for Wn<1> { fn default() -> Self { Wn } }"),
    ("const_in_expr_position_enum", "Default, Clone, PartialEq", "pub enum X<const N: usize> { A, #[default] B([u16; N], Wn<{ N }>) }\n"
     "#[derive(Clone, PartialEq)] pub struct Wn<const K: usize>;\nimpl ::core::default::Default for Wn<2> { fn default() -> Self { Wn } }"),
    # (op= is only requested where Output is the self type as derive_ex sees it: a reference with a named lifetime is an opaque by-value operand)
    # user impls whose reference operands carry a NAMED lifetime that other parts of the impl depend on (Output borrows it, the other operand
    # carries it, the referent is unsized): whatever forms derive_ex decides to generate must type-check
    ("impl_ops_named_lt_output_borrows", "Add", "impl<'a> ::core::ops::Add<&'a Step> for Cursor<'a> { type Output = Cursor<'a>; fn add(self, r: &'a Step) -> Cursor<'a> { Cursor(r, self.1 + 1) } }\n"
     "#[derive(Clone)] pub struct Step(pub u8); #[derive(Clone)] pub struct Cursor<'a>(pub &'a Step, pub u8);"),
    ("impl_ops_named_lt_both", "Sub", "impl<'a> ::core::ops::Sub<&'a N> for &'a N { type Output = Pair<'a>; fn sub(self, r: &'a N) -> Pair<'a> { Pair(self, r) } }\n"
     "#[derive(Clone)] pub struct N(pub u8); pub struct Pair<'a>(pub &'a N, pub &'a N);"),
    ("impl_ops_named_lt_unsized_rhs", "Add, AddAssign", "impl<'a> ::core::ops::Add<&'a str> for X { type Output = X; fn add(self, r: &'a str) -> X { X(self.0 + r.len()) } }\n#[derive(Clone)] pub struct X(pub usize);"),
    ("impl_ops_named_lt_slice_rhs", "BitOr", "impl<'a, T: ::core::clone::Clone> ::core::ops::BitOr<&'a [T]> for &'a V<T> { type Output = V<T>; fn bitor(self, r: &'a [T]) -> V<T> { let mut v = self.0.clone(); v.extend_from_slice(r); V(v) } }\n"
     "#[derive(Clone)] pub struct V<T>(pub ::std::vec::Vec<T>);"),
    ("impl_ops_named_lt_plain", "Mul", "impl<'a> ::core::ops::Mul<&'a Y> for &'a Y { type Output = Y; fn mul(self, r: &'a Y) -> Y { Y(self.0 * r.0) } }\n#[derive(Clone)] pub struct Y(pub u8);"),
    ("impl_ops_static_lt", "Add", "impl ::core::ops::Add<&'static str> for Z { type Output = Z; fn add(self, r: &'static str) -> Z { Z(self.0 + r.len()) } }\n#[derive(Clone)] pub struct Z(pub usize);"),
]


NEEDS_NAME_LINTS = ("raw_idents", "raw_enum", "local_names_fields", "local_names_variants", "param_named_like_locals", "param_named_f_debug",
                    "const_named_like_locals")


def c20_program(attr, item, entry="attr", tag=""):
    if entry == "attr":
        head = "#[::derive_ex::derive_ex(%s)]" % attr
    else:
        head = "#[derive(::derive_ex::Ex)] #[derive_ex(%s)]" % attr
    # naming lints are allowed only where the USER's own names need it: generated names must not draw them
    allow = "dead_code, non_camel_case_types, non_snake_case, non_upper_case_globals" if tag in NEEDS_NAME_LINTS else "dead_code"
    return "#![deny(warnings)]\n#![allow(%s)]\n%s %s\n" % (allow, head, item)


def c20_random_items(tier, rnd):
    """the C03 grammar crossed with what it keeps apart: several traits at once, key/by/ignore/reverse and debug/default attributes on
    generic fields, continuing explicit bounds, enums and structs"""
    out = []
    N = 1200 if tier == "quick" else 12000
    trait_sets = [["Clone", "Debug", "Default", "PartialEq", "Eq", "PartialOrd", "Ord", "Hash"], ["Copy", "Clone"], ["PartialEq", "Hash"], ["PartialOrd", "PartialEq"],
                  ["Ord", "PartialOrd", "Eq", "PartialEq"], ["Debug", "Default"], ["Add", "Sub", "AddAssign", "Neg", "Not"], ["Eq", "PartialEq", "Hash", "Clone"],
                  ["Hash"], ["Ord", "PartialOrd", "Eq", "PartialEq", "Hash", "Clone", "Debug"]]
    param_sets = [[{"k": "type"}], [{"k": "type"}, {"k": "type"}, {"k": "const"}], [{"k": "lifetime"}, {"k": "type"}, {"k": "const"}]]
    for n in range(N):
        D = rnd.choice(trait_sets)
        ops = any(t in bf.BINOPS or t.endswith("Assign") or t in ("Neg", "Not") for t in D)
        ps = copy.deepcopy(rnd.choice(param_sets))
        t0 = D[0]
        pool = pool_for("Add" if ops else ("Copy" if "Copy" in D else ("Default" if "Default" in D else t0)), ps)
        kind = "struct" if ops else rnd.choice(["struct", "enum"])
        nf = rnd.choice([1, 2, 3])
        chosen = []
        for pi in range(1, len(ps) + 1):
            cands = [x for x in pool if mentions_param(x, pi) and x not in chosen]
            if not any(mentions_param(x, pi) for x in chosen) and cands:
                chosen.append(rnd.choice(cands))
        while len(chosen) < nf:
            c = rnd.choice([x for x in pool if x not in chosen])
            chosen.append(c)
        rnd.shuffle(chosen)
        fields = []
        cmpD = [t for t in D if t in cf.TRAITS]
        for j, ty in enumerate(chosen):
            f = bf.fld(copy.deepcopy(ty))
            r = rnd.random()
            if cmpD and r < 0.45:
                c = cf.plain()
                c["ord"] = rnd.choice([{"ign": True, "rev": False, "sel": "none"}, {"ign": False, "rev": True, "sel": "none"}, {"ign": False, "rev": False, "sel": "key"},
                                       {"ign": False, "rev": True, "sel": "key"}] + ([{"ign": False, "rev": False, "sel": "by"}] if "Hash" not in D else []))
                if "Hash" in D and rnd.random() < 0.3 and c["ord"]["sel"] == "none" and not c["ord"]["ign"]:
                    c["hash"] = {"ign": True, "rev": False, "sel": "none"}
                f["cmp"] = c
            if "Debug" in D and rnd.random() < 0.25:
                f["dbg"] = "ignore"
            if "Default" in D and rnd.random() < 0.25:
                f["dval"] = True
            if rnd.random() < 0.2:
                f["b"] = bf.LS(None, rnd.choice(["Pdd", "dd", "absent"]), rnd.choice(["absent", "dd"]))
            fields.append(f)
        tb = bf.LS(None, rnd.choice(["absent", "absent", "dd", "Pdd"]), rnd.choice(["absent", "dd"]))
        if kind == "struct":
            P = bf.mkP("struct", t0, [{"shape": rnd.choice(["named", "tuple"]), "fields": fields}], D=D, params=ps, decl=rnd.choice([0, 0, 1]), tb=tb)
        else:
            others = [x for x in pool if x not in chosen]
            v2 = {"shape": rnd.choice(["unit", "tuple"]), "fields": []}
            if v2["shape"] == "tuple":
                v2["fields"] = [bf.fld(copy.deepcopy(rnd.choice(others)))]
            vmain = {"shape": rnd.choice(["named", "tuple"]), "fields": fields, "dmark": "Default" in D}
            P = bf.mkP("enum", t0, rnd.choice([[vmain, v2], [v2, vmain], [vmain]]), D=D, params=ps, decl=rnd.choice([0, 0, 1]), tb=tb)
        if "assoc" in json.dumps(P["variants"]):
            for p in P["params"]:
                if p["k"] == "type":
                    p["inline"] = "::dx_support::Tr"
        P["conc"] = "int" if (ops or "Copy" in D) else "any"
        out.append(P)
    return out


def c20_item_of(P):
    """program text for a bounds-family descriptor: per-trait bound applies to the subject trait only; marker traits are declared"""
    attr, item = bf.item_parts(P)
    ids = sorted(set(re.findall(r"M_[A-Za-z0-9_]+", attr + item)))
    decls = "".join("#[allow(non_camel_case_types)] pub trait %s {}\nimpl<T: ?Sized> %s for T {}\n" % (m, m) for m in ids)
    decls += "".join("pub trait Dcl%d {}\nimpl<T: ?Sized> Dcl%d for T {}\n" % (k, k) for k in range(1, P["decl"] + 1))
    return attr, item, decls


import re


def c20(tier):
    ck = dx.Check("C20", tier)
    if not model(ck, "nine3"):
        return ck.finish()
    rnd = random.Random(dx.seed())
    progs = []      # (tag, attr, item, decls)
    for name, attr, item in C20_SPECIAL:
        progs.append((name, attr, item, ""))
    for P in c20_random_items(tier, rnd):
        attr, item, decls = c20_item_of(P)
        progs.append(("grammar:" + "+".join(P["D"]), attr, item, decls))
    # own errors: in-process, both entry points
    reqs = []
    for tag, attr, item, decls in progs:
        first = item.split("\n")[0]
        reqs.append({"k": "expand", "id": len(reqs), "entry": "attr", "attr": attr, "item": first})
    resps = dx.expand(reqs)
    wd = os.path.join(dx.WORK, "c20-%d" % os.getpid())

    def comp(ix):
        i, (tag, attr, item, decls) = ix
        entry = "attr" if (i % 2 == 0 or item.startswith("impl")) else "derive"
        first, rest = (item.split("\n", 1) + [""])[:2]
        src = c20_program(attr, first, entry, tag) + rest + "\n" + decls
        ok, diags = dx.check_only("p%d" % i, src, wd, deny_warnings=False)
        ds = [d for d in diags if d.get("level") in ("error", "warning") and "aborting due to" not in d.get("message", "")
              and "warning emitted" not in d.get("message", "") and "warnings emitted" not in d.get("message", "")]
        return ok, dx.diag_summary(ds, level=("error", "warning"))[:4], src
    # warnings that the same field types draw from the STANDARD derive as well are not derive_ex's doing:
    # probe std with the field types of the pool and collect the lint names it triggers
    probe = ("#![deny(warnings)]\n#![allow(dead_code)]\n#[derive(Clone, Debug, PartialEq, PartialOrd, Hash)] pub struct P<T>(pub fn(T) -> u8, pub *const T, pub fn(T) -> T);\n"
             "#[derive(Clone, Copy, Debug, PartialEq, Eq, PartialOrd, Ord, Hash)] pub struct Q(pub fn(u8) -> u8);\n")
    okp, dp = dx.check_only("probe", probe, wd)
    std_lints = sorted(set((d.get("code") or {}).get("code") for d in dp if d.get("level") == "warning" and d.get("code")))
    ck.notes["lints_std_draws_for_the_same_field_types"] = std_lints
    todo = [(i, p) for i, p in enumerate(progs) if resps[i].get("class") == "items"]
    res = dict(zip([i for i, _ in todo], dx.pmap(comp, todo)))
    res = {i: (ok, [d for d in ds if d.get("code") not in std_lints], src) for i, (ok, ds, src) in res.items()}
    import shutil
    shutil.rmtree(wd, ignore_errors=True)
    events, idx = [], []
    for i, p in enumerate(progs):
        own = resps[i].get("class") != "items"
        if own:
            continue          # derive_ex answered with a message of its own: the property says nothing more
        ok, ds, src = res[i]
        events.append({"ev": "compiles", "rustc_ok": bool(ok and not ds)})
        idx.append(i)
    n, bad, jst = dx.tlc_judge("Trace_Bounds", "Trace_Bounds.cfg", events, "c20", chunk=max(300, -(-len(events) // 8)))
    ck.add_judge(n, jst)
    for b in bad:
        i = idx[b]
        tag, attr, item, decls = progs[i]
        ok, ds, src = res[i]
        codes = ",".join(sorted(set(d.get("code") or "?" for d in ds)))
        sig = {"kind": "rustc_trips_over_generated_code", "tag": tag if not tag.startswith("grammar") else "grammar", "codes": codes}
        if tag.startswith("grammar"):
            sig["traits"] = tag.split(":")[1]
        ck.violation(sig, {"what": "derive_ex reported no error but the generated code does not compile cleanly", "source": src, "diagnostics": ds})
    ck.notes["programs"] = len(progs)
    ck.notes["own_errors"] = len(progs) - len(events)
    ck.sample({"program": res[idx[0]][2][:500]})
    ck.sample({"program": res[idx[len(idx) // 2]][2][:500]})
    ck.cov["evaluations"] = len(events)
    ck.cov["distinct_nontrivial"] = len(set(res[i][2] for i in idx))
    ck.cov["rule"] = ("hand-written special shapes (empty / single-variant enums, Self in where-clauses, parameters called H / T / 'a, parameter defaults, unsized tails, by on first/middle/last and on generic fields, raw identifiers, names of generator locals) "
                      "plus a seeded grammar crossing trait lists x struct/enum x 3 parameter lists x the type pool x comparison / debug / default attributes x continuing explicit bounds; metadata-only rustc under deny(warnings)")
    ck.assumptions.append("decisive oracle: rustc; programs whose own expansion contains compile_error! are out of scope (C05)")
    return ck.finish()


# ------------------------------------------------------------------------------------------------
# C03, behavioural half: trait-solver bit matrix over probe instantiations, derived impl vs a twin impl that carries
# exactly the where-clause TLC prescribes (Emit_Bounds)
# ------------------------------------------------------------------------------------------------
PROBE_TRAITS = ["Clone", "Copy", "Debug", "Default", "PartialEq", "Eq", "PartialOrd", "Ord", "Hash"]
PROBE_PRELUDE = """    #[derive(Clone, Copy, Debug, Default, PartialEq, Eq, PartialOrd, Ord, Hash)] pub struct Yes;
    pub struct No;
    // the associated type crosses over, so a bound on `T` and a bound on `T::Assoc` give different matrices
    impl ::dx_support::Tr for Yes { type Assoc = No; }
    impl ::dx_support::Tr for No { type Assoc = Yes; }
    pub trait Fallback { const B: bool = false; }
    impl<T: ?Sized> Fallback for T {}
    pub struct IsT<T: ?Sized>(::core::marker::PhantomData<T>);
    impl<T: ?Sized + %s> IsT<T> { pub const B: bool = true; }
    pub struct IsMk<T: ?Sized>(::core::marker::PhantomData<T>);
    impl<T: ?Sized + Mk> IsMk<T> { pub const B: bool = true; }
    pub trait Mk {}
"""


def tlc_emit_where(Ps, tag):
    """ask TLC (Emit_Bounds) for DocWhere of every descriptor"""
    path = os.path.join(dx.WORK, "trace", "%s-%d.ndjson" % (tag, os.getpid()))
    os.makedirs(os.path.dirname(path), exist_ok=True)
    with open(path, "w") as f:
        for P in Ps:
            f.write(json.dumps({"P": P}, separators=(",", ":")) + "\n")
    st, outp = dx.tlc_run("Emit_Bounds", "Emit_Bounds.cfg", tag, workers=1, env_extra={"TRACE": path}, cache=False,
                          jvm="-Xss1g -Xmx3g -Dtlc2.tool.queue.IStateQueue=StateDeque")
    ws = dx.parse_prints(open(outp).read(), "WHERE")
    os.remove(path)
    by = {w["i"]: w["w"] for w in ws}
    if len(by) != len(Ps):
        raise dx.ToolError("Emit_Bounds answered %d of %d descriptors (%s)" % (len(by), len(Ps), outp))
    os.remove(outp)
    return [by[i + 1] for i in range(len(Ps))]


def probe_module(idx, P, tags):
    t = P["t"]
    attr, item = bf.item_parts(P)
    texts = dict(bf.tag_texts(P, ("plain",)))
    atoms = []
    for tg in tags:
        if tg not in texts:
            raise dx.ToolError("no rendering for tag %s" % tg)
        atoms.append(texts[tg])
    gens = bf.generics_src(P)
    # parameter list of the twin = that of the item, used through a PhantomData
    names = []
    for i, p in enumerate(P["params"]):
        names.append(bf.pname(P, i + 1))
    lts = [n for n in names if n.startswith("'")]
    tys = [n for n in names if n.startswith("T")]
    # `&'l T` for every pair: the twin then has the same implied outlives bounds as an item with such fields
    use = ", ".join([("&%s ()" % n) if n.startswith("'") else ("[u8; %s]" % n if n.startswith("N") else n) for n in names] +
                    ["&%s %s" % (l, t) for l in lts for t in tys])
    args = ", ".join(names)
    lines = ["pub mod m%d {" % idx, PROBE_PRELUDE % bf.trait_path(t)]
    lines.append("".join("    pub trait Dcl%d {} impl<T: ?Sized> Dcl%d for T {}\n" % (k, k) for k in range(1, P["decl"] + 1)))
    lines.append("    #[::derive_ex::derive_ex(%s)] %s" % (attr, item.strip()))
    lines.append("    pub struct Twin%s(::core::marker::PhantomData<(%s,)>);" % (gens, use))
    lines.append("    impl%s Mk for Twin<%s> %s {}" % (gens, args, ("where " + ", ".join(atoms)) if atoms else ""))
    tps = [i for i, p in enumerate(P["params"]) if p["k"] == "type"]
    combos = list(itertools.product(["Yes", "No"], repeat=len(tps)))
    lines.append("    pub fn run() -> String {\n        let mut s = String::from(\"{\\\"id\\\":%d,\\\"bits\\\":[\");" % idx)
    for ci, combo in enumerate(combos):
        inst = []
        k = 0
        for i, p in enumerate(P["params"]):
            if p["k"] == "type":
                inst.append(combo[k])
                k += 1
            elif p["k"] == "const":
                inst.append("2")
            else:
                inst.append("'static")
        a = ", ".join(inst)
        lines.append("        s += &format!(\"%s{{\\\"inst\\\":\\\"%s\\\",\\\"derived\\\":{},\\\"twin\\\":{}}}\", <IsT<X<%s>>>::B, <IsMk<Twin<%s>>>::B);"
                     % ("," if ci else "", "+".join(combo), a, a))
    lines.append("        s += \"]}\\n\"; s\n    }\n}")
    return "\n".join(lines)


def c03_probe(ck, tier, Ps):
    import checks_run
    sel = [P for P in Ps if P["t"] in PROBE_TRAITS]
    rnd = random.Random(dx.seed() + 11)
    sel = [copy.deepcopy(P) for P in rnd.sample(sel, min(len(sel), 500 if tier == "quick" else 4000))]
    # every type parameter gets the Tr bound so that T::Assoc types are well-formed for both probes
    for P in sel:
        for p in P["params"]:
            if p["k"] == "type" and "assoc" in json.dumps(P["variants"]):
                p["inline"] = "::dx_support::Tr"
    wheres = tlc_emit_where(sel, "c03emit")
    mods = [(i, probe_module(i, P, wheres[i])) for i, P in enumerate(sel)]
    res, failed = checks_run.run_modules(mods, "c03p")
    events = []
    for i, P in enumerate(sel):
        if i in res:
            events.append({"ev": "probe", "P": P, "tags": wheres[i], "rustc_ok": True, "bits": res[i][0]["bits"]})
        else:
            events.append({"ev": "probe", "P": P, "tags": wheres[i], "rustc_ok": False, "bits": []})
    n, bad, jst = dx.tlc_judge("Trace_Bounds", "Trace_Bounds.cfg", events, "c03p", chunk=max(100, -(-len(events) // 8)))
    ck.add_judge(n, jst)
    for i in bad:
        P = sel[i]
        e = events[i]
        diff = [b for b in e["bits"] if b["derived"] != b["twin"]]
        ftys = sorted(set(f["ty"]["k"] for v in P["variants"] for f in v["fields"]))
        sig = {"kind": "probe_matrix", "trait": P["t"], "item": P["kind"], "usage": P.get("usage"), "types": "+".join(ftys), "rustc_ok": e["rustc_ok"]}
        ck.violation(sig, {"what": "the derived impl applies to different instantiations than an impl carrying the specified where-clause",
                           "source": mods[i][1], "differing": diff, "tags": e["tags"], "diagnostics": failed.get(i)})
    varied = sum(1 for e in events if len(set(b["derived"] for b in e["bits"])) > 1)
    ck.notes["probe"] = {"items": len(events), "items_whose_impl_depends_on_the_instantiation": varied}
    if events and varied == 0:
        raise dx.ToolError("vacuous probe matrix")
    return len(events)
