"""Checks of the bounds family: C03 (default bounds) and C04 (explicit bound(...) priority)."""
import copy, itertools, json, os, random
import dxlib as dx
import cmpfam as cf
import bndfam as bf

A3 = ["absent", "empty", "Pdd"]
A4 = ["absent", "empty", "P", "Pdd"]
A6 = ["absent", "empty", "P", "dd", "Pdd", "T"]
A7 = A6 + ["Tdd"]

TY_T = {"k": "param", "i": 1}
TY_OPT = {"k": "app", "c": "Option", "args": [{"k": "param", "i": 1}]}
TY_VEC = {"k": "app", "c": "Vec", "args": [{"k": "param", "i": 1}]}
TY_U8 = {"k": "conc", "n": 0}


def model(ck, fam):
    st, outp = dx.tlc_run("MC_Bounds", "MC_Bounds_%s.cfg" % fam, "mc_bounds_" + fam, timeout=7200, workers=12)
    if not st["ok"]:
        ck.violation({"kind": "model", "family": fam, "invariants": st["violated"], "errors": st["errors"]},
                     {"what": "TLC found the bound-resolution design in violation (MC_Bounds)", "tlc_output": outp,
                      "tail": open(outp).read()[-3000:]})
        return False
    ck.add_model(st)
    ck.notes.setdefault("model", []).append({"module": "MC_Bounds", "family": fam, "states": st.get("distinct"), "depth": st.get("depth"),
                                             "cached": st.get("cached"), "tlc_wall_s": st.get("wall_s"),
                                             "properties": "Progress MechIsDoc DeclRetained DefaultIsUsedFields ScopeIsolation GrowOnly FlagNeverReturns"})
    return True


def nine_item(t, ch, helper):
    """enum, two variants; nine levels on (type, variant 1, field 1.1); variant 2 carries nothing"""
    def ls(a, b, c):
        return bf.LS({helper: a} if helper else None, b, c)
    v1 = {"shape": "tuple", "dmark": t == "Default", "vb": ls(ch[3], ch[4], ch[5]),
          "fields": [bf.fld(TY_T, ls(ch[6], ch[7], ch[8]))]}
    v2 = {"shape": "named", "dmark": False, "vb": bf.LS(), "fields": [bf.fld(TY_OPT)]}
    return bf.mkP("enum", t, [v1, v2], decl=1, tb=ls(ch[0], ch[1], ch[2]))


def six_item(t, ch, kind="enum"):
    """traits without helper attribute: per-trait / shared argument at type, variant, field"""
    if kind == "enum":
        v1 = {"shape": "tuple", "vb": bf.LS(None, ch[2], ch[3]), "fields": [bf.fld(TY_T, bf.LS(None, ch[4], ch[5])), bf.fld(TY_VEC)]}
        v2 = {"shape": "named", "fields": [bf.fld(TY_OPT)]}
        return bf.mkP("enum", t, [v1, v2], decl=1, tb=bf.LS(None, ch[0], ch[1]))
    v1 = {"shape": "named", "fields": [bf.fld(TY_T, bf.LS(None, ch[2], ch[3])), bf.fld(TY_OPT)]}
    return bf.mkP("struct", t, [v1], decl=1, tb=bf.LS(None, ch[0], ch[1]))


def cmp_level_items(t, tier, rnd):
    """comparison trait t: bound(...) on the helper attributes that affect t at type, variant and field level"""
    chain = {"PartialEq": ["partial_eq", "eq", "partial_ord", "ord"], "Eq": ["eq", "ord"], "PartialOrd": ["partial_ord", "ord"],
             "Ord": ["ord"], "Hash": ["hash", "eq", "ord"]}[t]
    D = ["Ord", "PartialOrd", "Eq", "PartialEq", "Hash"]
    out = []
    alpha = A4
    combos = list(itertools.product(alpha, repeat=len(chain)))
    for place in ("type", "variant", "field"):
        for combo in combos:
            h = dict(zip(chain, combo))
            for th in (("absent",) if tier == "quick" else ("absent", "Pdd")):
                if place == "type":
                    P = bf.mkP("struct", t, [{"shape": "tuple", "fields": [bf.fld(TY_T), bf.fld(TY_OPT)]}], D=D, tb=bf.LS(h, th))
                elif place == "variant":
                    P = bf.mkP("enum", t, [{"shape": "tuple", "vb": bf.LS(h, th), "fields": [bf.fld(TY_T)]},
                                           {"shape": "tuple", "fields": [bf.fld(TY_OPT)]}], D=D)
                else:
                    P = bf.mkP("struct", t, [{"shape": "named", "fields": [bf.fld(TY_T, bf.LS(h, th)), bf.fld(TY_OPT)]}], D=D)
                out.append(P)
    # key / by on a higher-priority attribute cuts the lower attributes' bounds off (field level)
    for sel_attr in chain:
        for s in ("key", "by"):
            if t == "Hash" and s == "by" and sel_attr != "hash":
                continue
            for combo in itertools.product(["absent", "P", "Pdd"], repeat=len(chain)):
                h = dict(zip(chain, combo))
                cmp = cf.plain()
                cmp[sel_attr] = {"ign": False, "rev": False, "sel": s}
                # every other derived trait needs its own customisation, else derive_ex refuses them (fine: only t is looked at)
                P = bf.mkP("struct", t, [{"shape": "named", "fields": [bf.fld(TY_T, bf.LS(h, "Pdd"), cmp=cmp), bf.fld(TY_OPT)]}], D=D)
                out.append(P)
    return out


def c04_items(tier, rnd):
    Ps = []
    alpha9 = A3 if tier == "quick" else A4
    for t, helper in (("Debug", "debug"), ("Default", "default")):
        for ch in itertools.product(alpha9, repeat=9):
            Ps.append(nine_item(t, ch, helper))
        # the full six-letter alphabet (incl. bound(..) and bound(Ty)) on a seeded sample of the 6^9 space
        for _ in range(3000 if tier == "quick" else 40000):
            Ps.append(nine_item(t, [rnd.choice(A7) for _ in range(9)], helper))
    for t in ("Clone", "Copy", "PartialEq", "Eq", "PartialOrd", "Ord", "Hash", "Debug", "Default"):
        alpha = A4 if tier == "quick" else A6
        if t in ("Debug", "Default"):
            continue
        for ch in itertools.product(alpha, repeat=6):
            P = six_item(t, ch)
            if t in cf.TRAITS:
                P["D"] = [t]
            Ps.append(P)
    for t in ("Add", "SubAssign", "Neg", "Not", "Shl", "BitXorAssign", "Clone", "Copy", "Deref", "DerefMut"):
        for ch in itertools.product(A7 if tier == "thorough" else A6, repeat=4):
            P = six_item(t, ch, "struct")
            if t in ("Deref", "DerefMut"):
                P["variants"][0]["fields"] = P["variants"][0]["fields"][:1]
            Ps.append(P)
    for t in cf.TRAITS:
        Ps += cmp_level_items(t, tier, rnd)
    return Ps


def judge_where(ck, tag, Ps, entries=("attr", "derive")):
    amap = bf.AtomMap()
    events, reqs = bf.observe_where(Ps, amap, entries)
    n, bad, jst = dx.tlc_judge("Trace_Bounds", "Trace_Bounds.cfg", events, tag, chunk=max(1000, -(-len(events) // 12)))
    ck.add_judge(n, jst)
    return events, reqs, bad


def level_sig(P):
    """compact signature of where the explicit bounds sit"""
    def ls(x, sid):
        out = []
        for a in bf.HELPERS:
            if x["h"][a] != "absent":
                out.append("%s.h.%s=%s" % (sid, a, x["h"][a]))
        for k in ("this", "common"):
            if x[k] != "absent":
                out.append("%s.%s=%s" % (sid, k, x[k]))
        return out
    out = ls(P["tb"], "t")
    for vi, v in enumerate(P["variants"]):
        out += ls(v["vb"], "v%d" % (vi + 1))
        for j, f in enumerate(v["fields"]):
            out += ls(f["b"], "f%d.%d" % (vi + 1, j + 1))
    return " ".join(out)


def bug_class(P, ev):
    """coarse class of a mismatch (for grouping / known-finding matching): which tags are missing / extra is not
    computed here (that would need the expectation); we key on trait, kind and which scopes carry explicit bounds"""
    scopes = set(x.split(".")[0][0] + (".h" if ".h." in x else "") for x in level_sig(P).split())
    return {"kind": "where", "trait": P["t"], "item": P["kind"], "entry": ev["entry"], "scopes": "+".join(sorted(scopes))}


def c04(tier):
    ck = dx.Check("C04", tier)
    for fam in (("nine3", "cmpq") if tier == "quick" else ("nine4", "cmp")):
        if not model(ck, fam):
            return ck.finish()
    rnd = random.Random(dx.seed())
    Ps = c04_items(tier, rnd)
    dx.log("C04: %d items" % len(Ps))
    events, reqs, bad = judge_where(ck, "c04", Ps)
    for i in bad:
        e = events[i]
        sig = bug_class(e["P"], e)
        ck.violation(sig, {"what": "where-clause of the generated impl differs from DocWhere (nine-level priority)",
                           "levels": level_sig(e["P"]), "request": reqs[i], "observed_tags": e["impls"], "nerr": e["nerr"]})
    for i in (0, len(events) // 2, len(events) - 1):
        ck.sample({"request": reqs[i]["item"][:300], "attr": reqs[i]["attr"], "observed_tags": events[i]["impls"]})
    ck.cov["evaluations"] = len(events)
    ck.cov["distinct_nontrivial"] = len(set(json.dumps(e["impls"]) + e["P"]["t"] for e in events))
    ck.cov["rule"] = ("all assignments of the tier's alphabet to the nine levels (Debug, Default on enums), six levels (helper-less traits on enums), "
                      "four levels (struct-only traits), all assignments to the comparison helper chains at type/variant/field level and key/by cut-offs, "
                      "plus a seeded sample of the 7-letter alphabet; both entry points; distinct = distinct (trait, observed tag sets)")
    ck.cov["exhaustive"] = True
    ck.assumptions += ["where-clauses are compared as sets of normalised `Type : Bound` atoms mapped to origin tags",
                       "explicit bounds on ignored / transparent-shadowed fields are not generated (the documentation leaves them open)"]
    return ck.finish()


# ------------------------------------------------------------------------------------------------
# C03: default bounds = used field types that mention a type / const parameter
# ------------------------------------------------------------------------------------------------
def ty_pool(params):
    """type expressions over params (list of kinds); indices are 1-based positions"""
    tys = [i + 1 for i, p in enumerate(params) if p["k"] == "type"]
    cons = [i + 1 for i, p in enumerate(params) if p["k"] == "const"]
    lts = [i + 1 for i, p in enumerate(params) if p["k"] == "lifetime"]
    T = lambda i: {"k": "param", "i": i}
    app = lambda c, *a: {"k": "app", "c": c, "args": list(a)}
    pool = [{"k": "conc", "n": 0}, {"k": "conc", "n": 1}, {"k": "abs", "n": 0}, app("::core::option::Option", {"k": "conc", "n": 0})]
    for t in tys:
        pool += [T(t), app("::core::option::Option", T(t)), app("::std::vec::Vec", T(t)), app("::std::boxed::Box", T(t)),
                 app("::std::rc::Rc", T(t)), app("::core::marker::PhantomData", T(t)),
                 {"k": "tuple", "args": [T(t), {"k": "conc", "n": 0}]},
                 {"k": "array", "of": T(t), "len": 0}, {"k": "fn", "args": [T(t)], "ret": {"k": "conc", "n": 0}},
                 {"k": "ptr", "of": T(t)}, {"k": "assoc", "i": t, "n": 0}, {"k": "qassoc", "of": T(t), "n": 0},
                 app("::std::vec::Vec", app("::core::option::Option", T(t)))]
        for l in lts:
            pool.append({"k": "ref", "lt": l, "of": T(t)})
        for c in cons:
            pool.append({"k": "array", "of": T(t), "len": c})
        for t2 in tys:
            if t2 != t:
                pool.append({"k": "tuple", "args": [T(t), T(t2)]})
                pool.append({"k": "fn", "args": [T(t)], "ret": T(t2)})
    for c in cons:
        pool.append({"k": "array", "of": {"k": "conc", "n": 0}, "len": c})
    for l in lts:
        pool.append({"k": "ref", "lt": l, "of": {"k": "conc", "n": 1}})
    return pool


def closure_of(t):
    if t == "Ord":
        return ["Ord", "PartialOrd", "Eq", "PartialEq"]
    if t == "PartialOrd":
        return ["PartialOrd", "PartialEq"]
    if t == "Eq":
        return ["Eq", "PartialEq"]
    if t == "Copy":
        return ["Copy", "Clone"]
    if t == "DerefMut":
        return ["Deref", "DerefMut"]
    return [t]


def usage_states(t):
    """(tag, field-modifier) pairs: ways a field can be (un)used by trait t"""
    st = [("used", lambda f: f)]
    if t == "Debug":
        st += [("dbg_ignore", lambda f: dict(f, dbg="ignore")), ("dbg_transparent", lambda f: dict(f, dbg="transparent"))]
    if t == "Default":
        st += [("dval", lambda f: dict(f, dval=True))]
    if t in cf.TRAITS:
        def with_ord(o):
            def m(f):
                c = cf.plain()
                c["ord"] = o
                return dict(f, cmp=c)
            return m
        st += [("cmp_ignore", with_ord({"ign": True, "rev": False, "sel": "none"})),
               ("cmp_key", with_ord({"ign": False, "rev": False, "sel": "key"}))]
        if t != "Hash":
            st += [("cmp_by", with_ord({"ign": False, "rev": False, "sel": "by"}))]
        if t in ("Ord", "PartialOrd"):
            st += [("cmp_reverse", with_ord({"ign": False, "rev": True, "sel": "none"}))]
    return st


ALL_TRAITS = ["Clone", "Copy", "Debug", "Default", "Ord", "PartialOrd", "Eq", "PartialEq", "Hash", "Deref", "DerefMut",
              "Neg", "Not"] + bf.BINOPS + [b + "Assign" for b in bf.BINOPS]


def mentions_param(ty, i):
    return ('"i": %d' % i) in json.dumps(ty) or ('"len": %d' % i) in json.dumps(ty) or ('"lt": %d' % i) in json.dumps(ty)


def pool_for(t, ps):
    """types a field may have under trait t such that the USER side of the program is well-typed:
    concrete (parameter-free) types must implement the trait themselves"""
    pool = ty_pool(ps)
    strict_conc = t in bf.BINOPS or t in bf.UNOPS or t.endswith("Assign") or t in ("Copy",)

    def ok(ty):
        txt = json.dumps(ty)
        concrete = not any(p in txt for p in ('"param"', '"assoc"', '"array"'))
        has_tp = '"param"' in txt or '"assoc"' in txt
        if strict_conc:
            if ty["k"] == "conc":
                return True            # rendered as i8 for these traits
            if not has_tp and '"len"' not in txt:
                return False
            if ty["k"] == "array" and ty["of"]["k"] == "conc":
                return False           # [u8; N] mentions N but arrays have no operators: user error, not ours
        if t == "Default" and not has_tp:
            if ty["k"] in ("ref", "ptr", "fn"):
                return False
            if ty["k"] == "array":
                return False
        if t in ("Default",) and ty["k"] == "array" and ty["of"]["k"] == "conc":
            return False
        return True
    return [x for x in pool if ok(x)]


def c03_items(tier, rnd):
    Ps = []
    param_sets = [[{"k": "type"}],
                  [{"k": "type"}, {"k": "type"}, {"k": "const"}],
                  [{"k": "lifetime"}, {"k": "type"}, {"k": "const"}]]
    for t in ALL_TRAITS:
        enum_ok = t in ("Clone", "Copy", "Debug", "Default") + tuple(cf.TRAITS)
        for ps in param_sets:
            pool = pool_for(t, ps)
            for ty in pool:
                for stag, mod in usage_states(t):
                    # all field types of an item are pairwise different, so that every where-atom has one origin
                    others = [x for x in pool if x != ty]
                    kinds = ["struct"] + (["enum"] if enum_ok else [])
                    for kind in kinds:
                        f1 = mod(bf.fld(copy.deepcopy(ty)))
                        chosen = [ty]
                        extra = []
                        # every parameter must occur in some field (else the user's item is ill-formed: E0392)
                        for pi in range(1, len(ps) + 1):
                            if not any(mentions_param(x, pi) for x in chosen):
                                cands = [x for x in others if mentions_param(x, pi) and x not in chosen]
                                c = rnd.choice(cands)
                                chosen.append(c)
                                extra.append(bf.fld(copy.deepcopy(c)))
                        if not extra:
                            c = rnd.choice([x for x in others if x not in chosen])
                            chosen.append(c)
                            extra.append(bf.fld(copy.deepcopy(c)))
                        third = rnd.choice([x for x in others if x not in chosen])
                        if t in ("Deref", "DerefMut"):
                            if len(extra) > 1 or any(not mentions_param(ty, pi) for pi in range(1, len(ps) + 1)):
                                continue
                            fields = [f1]
                        elif stag == "dbg_transparent":
                            fields = extra + [f1]
                        else:
                            fields = [f1] + extra if rnd.random() < 0.5 else extra + [f1]
                        decl = 1 if rnd.random() < 0.3 else 0
                        params = copy.deepcopy(ps)
                        if kind == "struct":
                            P = bf.mkP("struct", t, [{"shape": rnd.choice(["named", "tuple"]), "fields": fields}],
                                       D=closure_of(t), params=params, decl=decl)
                        else:
                            v_other = {"shape": "tuple", "fields": [bf.fld(copy.deepcopy(third))]}
                            v_main = {"shape": rnd.choice(["named", "tuple"]), "fields": fields, "dmark": t == "Default"}
                            vs = [v_main, v_other] if rnd.random() < 0.5 else [v_other, v_main]
                            P = bf.mkP("enum", t, vs, D=closure_of(t), params=params, decl=decl)
                        # T::Assoc / <T as Tr>::Assoc need T: Tr for the item to be well-formed
                        if "assoc" in json.dumps(P["variants"]):
                            for p in P["params"]:
                                if p["k"] == "type":
                                    p["inline"] = "::dx_support::Tr"
                        P["strict"] = True
                        P["usage"] = stag
                        P["conc"] = "int" if (t in bf.BINOPS or t in bf.UNOPS or t.endswith("Assign") or t == "Copy") else "any"
                        Ps.append(P)
    return Ps


def c03_program(P):
    """a compilable program: the generic item with its derived impls (nothing is instantiated)"""
    attr, item = bf.item_parts(P)
    decls = "".join("trait Dcl%d {}\n" % k for k in range(1, P["decl"] + 1))
    return "#![allow(dead_code, unused)]\n%s#[::derive_ex::derive_ex(%s)] %s\n" % (decls, attr, item)


def c03(tier):
    ck = dx.Check("C03", tier)
    if not model(ck, "nine3" if tier == "quick" else "nine4"):
        return ck.finish()
    rnd = random.Random(dx.seed())
    Ps = c03_items(tier, rnd)
    if tier == "thorough":
        for s in range(3):
            Ps += c03_items(tier, random.Random(dx.seed() * 1000 + s))
    dx.log("C03: %d items" % len(Ps))
    events, reqs, bad = judge_where(ck, "c03", Ps)
    for i in bad:
        e = events[i]
        P = e["P"]
        ftys = sorted(set(f["ty"]["k"] for v in P["variants"] for f in v["fields"]))
        sig = {"kind": "default_where", "trait": P["t"], "item": P["kind"], "usage": P.get("usage"), "types": "+".join(ftys), "nerr": e["nerr"] > 0}
        ck.violation(sig, {"what": "default where-clause differs from 'used field types that mention a parameter'",
                           "request": reqs[i], "observed_tags": e["impls"], "nerr": e["nerr"]})
    # (iii) the generic impl itself type-checks: compile every distinct program (attribute entry)
    progs = {}
    for P in Ps:
        progs.setdefault(c03_program(P), P)
    wd = os.path.join(dx.WORK, "c03-%d" % os.getpid())
    plist = sorted(progs.items())
    if tier == "quick" and len(plist) > 2500:
        plist = random.Random(dx.seed()).sample(plist, 2500)

    def comp(ix):
        i, (src, P) = ix
        ok, diags = dx.check_only("g%d" % i, src, wd)
        return ok, dx.diag_summary(diags)[:3]
    res = dx.pmap(comp, list(enumerate(plist)))
    import shutil
    shutil.rmtree(wd, ignore_errors=True)
    cev = [{"ev": "compiles", "rustc_ok": ok} for ok, _ in res]
    n2, bad2, jst2 = dx.tlc_judge("Trace_Bounds", "Trace_Bounds.cfg", cev, "c03c")
    ck.add_judge(n2, jst2)
    for i in bad2:
        src, P = plist[i]
        codes = ",".join(sorted(set(d.get("code") or "?" for d in res[i][1])))
        ftys = sorted(set(f["ty"]["k"] for v in P["variants"] for f in v["fields"]))
        sig = {"kind": "generic_impl_does_not_compile", "trait": P["t"], "item": P["kind"], "usage": P.get("usage"), "codes": codes, "types": "+".join(ftys)}
        ck.violation(sig, {"what": "the derived generic impl does not type-check with its default bounds", "source": src, "diagnostics": res[i][1]})
    ck.notes["programs_compiled"] = len(plist)
    for i in (0, len(events) // 2, len(events) - 1):
        ck.sample({"request": reqs[i]["item"][:300], "attr": reqs[i]["attr"], "observed_tags": events[i]["impls"]})
    ck.cov["evaluations"] = len(events) + len(cev)
    ck.cov["distinct_nontrivial"] = len(set(json.dumps(e["impls"]) + e["P"]["t"] for e in events))
    ck.cov["rule"] = ("every derivable trait x 3 parameter lists (type / type,type,const / lifetime,type,const) x type pool (~20 expressions per type parameter) "
                      "x usage states of the field x struct/enum; where-atom sets through both entry points, and every distinct generic program compiled with rustc")
    ck.cov["exhaustive"] = False
    return ck.finish()
