"""Comparison family (C01, C02, C05, C06, C17): concretiser, drivers and event construction.

Descriptor vocabulary (shared with spec/DxCmp.tla, spec/Trace_Cmp.tla):
  P   = {"kind": "struct"|"enum",
         "variants": [{"shape": "named"|"tuple"|"unit",
                       "fields": [{"cmp": {attr: {"ign","rev","sel"}}, "ty": "eq"|"noneq",
                                   "kty": "eq"|"noneq", "dom": n}]}]}
  D   = list of derived comparison traits, in listing order
The concretiser below only *writes the program down*; it has no idea what the result should be.
"""
import itertools, json, os, random
import dxlib as dx

ATTRS = ["ord", "partial_ord", "eq", "partial_eq", "hash"]
RANK = {"ord": 1, "partial_ord": 2, "eq": 3, "partial_eq": 4, "hash": 5}
TRAITS = ["Ord", "PartialOrd", "Eq", "PartialEq", "Hash"]
TRAIT_PATH = {"Ord": "::core::cmp::Ord", "PartialOrd": "::core::cmp::PartialOrd", "Eq": "::core::cmp::Eq",
              "PartialEq": "::core::cmp::PartialEq", "Hash": "::core::hash::Hash"}
NOOPT = {"ign": False, "rev": False, "sel": "none"}
PLAIN = {a: dict(NOOPT) for a in ATTRS}

# the user's key / by functions (mirrors KeyFn / ByFn of DxCmp.tla; X is the field value)
KEY = {"ord": "X.0 / 2", "partial_ord": "X.0 % 3", "eq": "X.0 / 3", "partial_eq": "X.0 % 2", "hash": "(X.0 + 1) / 2"}
BYK = {"ord": "(9 - X.0) / 2", "partial_ord": "(X.0 + 1) % 3", "eq": "(9 - X.0) / 3", "partial_eq": "(X.0 + 1) % 2",
       "hash": "(10 - X.0) / 2"}
COH = "X.0 / 2"


def field(cmp=None, ty="eq", kty="eq", dom=2, nan=False):
    return {"cmp": cmp or {a: dict(NOOPT) for a in ATTRS}, "ty": ty, "kty": kty, "dom": dom, "nan": nan}


def ty_src(f):
    # (f["ref"]: the field holds a SHARED REFERENCE to the value type - it compares and hashes like the value; a concretisation guise only)
    if f.get("ref"):
        return "&'static " + ty_src(dict(f, ref=False))
    return {"eq": "::dx_support::V", "noneq": "::dx_support::NE", "pv": "::dx_support::PV", "w": "::dx_support::W", "wc": "::dx_support::Wc"}[f["ty"]]


def key_expr(a, f, mode):
    e = (COH if mode == "coherent" else KEY[a]).replace("X", "$")
    k = "K" if f["kty"] == "eq" else "KN"
    return "::dx_support::%s(%d, %s)" % (k, RANK[a], e)


def by_expr(a, f, mode):
    t = ty_src(f)
    k = COH if mode == "coherent" else BYK[a]
    ka, kb = k.replace("X", "a"), k.replace("X", "b")
    if a == "ord":
        return "|a: &%s, b: &%s| ::core::cmp::Ord::cmp(&(%s), &(%s))" % (t, t, ka, kb)
    if a == "partial_ord":
        return "|a: &%s, b: &%s| ::core::cmp::PartialOrd::partial_cmp(&(%s), &(%s))" % (t, t, ka, kb)
    if a in ("eq", "partial_eq"):
        return "|a: &%s, b: &%s| (%s) == (%s)" % (t, t, ka, kb)
    return "|a: &%s, s| ::dx_support::hash_by(s, %s)" % (t, ka)


# bound(...) arguments written next to everything else: they must not change what is accepted or computed (C05 / C01 guises)
BOUND_GUISE = None      # None | "this_empty" | "shared_empty" | "helper_first" | "helper_last" | "helper_dd"


def _guise_args(args):
    if not args or BOUND_GUISE not in ("helper_first", "helper_last", "helper_dd"):
        return args
    if BOUND_GUISE == "helper_first":
        return ["bound()"] + args
    return args + (["bound(..)"] if BOUND_GUISE == "helper_dd" else ["bound()"])


def dlist(D):
    if BOUND_GUISE == "this_empty":
        return ", ".join("%s(bound())" % t for t in D)
    if BOUND_GUISE == "shared_empty":
        return ", ".join(list(D) + ["bound()"])
    return ", ".join(D)


def attr_args(P, D):
    """the macro arguments for the attribute entry (what item_src writes inside #[derive_ex(..)])"""
    return dlist(list(D) + list(P.get("co", [])))


def attrs_src(f, mode, order=None, spell=()):
    """spell: spellings that mean the same - arguments in the other order, a trailing comma, redundant parentheses around the key
    expression, a doc comment / foreign attribute between the helper attributes, the attributes written most specific first"""
    out = []
    names = list(order or ATTRS)
    if "attr_order" in spell:
        names.reverse()
    for a in names:
        o = f["cmp"][a]
        args = []
        if o["ign"]:
            args.append("ignore")
        if o["rev"]:
            args.append("reverse")
        if o["sel"] == "key":
            k = key_expr(a, f, mode)
            args.append("key = " + ("(%s)" % k if "paren_key" in spell else k))
        if o["sel"] == "idkey":
            args.append("key = $")              # the field itself, chosen explicitly
        if o["sel"] == "by":
            args.append("by = " + by_expr(a, f, mode))
        if "arg_order" in spell:
            args.reverse()
        if args:
            out.append("#[%s(%s%s)]" % (a, ", ".join(_guise_args(args)), ", " if "trailing_comma" in spell else ""))
    if "doc_between" in spell and out:
        return "#[doc = \"d\"] " + " #[allow(dead_code)] ".join(out) + " #[doc = \"e\"]"
    return " ".join(out)


SPELLS = ["attr_order", "paren_key", "arg_order", "trailing_comma", "doc_between", "paren_ty", "pub_crate"]


def level_attrs_src(cfg):
    """helper attributes written on a type or a variant (field-only arguments there are misuse)"""
    out = []
    for a in ATTRS:
        o = cfg[a]
        args = []
        if o["ign"]:
            args.append("ignore")
        if o["rev"]:
            args.append("reverse")
        if o["sel"] == "key":
            args.append("key = 0u8")
        if o["sel"] == "by":
            args.append("by = |_, _| true")
        if args:
            out.append("#[%s(%s)]" % (a, ", ".join(_guise_args(args))))
    return " ".join(out)


def item_src(P, D, name, mode, entry, for_rustc=False, generics="", extra_attrs=""):
    """Rust source of the item carrying the derive request."""
    # traits derived next to the comparison traits (the field types implement all of them); listed last
    dl = dlist(list(D) + list(P.get("co", [])))
    if entry == "attr":
        head = "#[%sderive_ex(%s)]" % ("::derive_ex::" if for_rustc else "", dl)
    else:
        head = ("#[derive(::derive_ex::Ex)] " if for_rustc else "") + "#[derive_ex(%s)]" % dl
    head += extra_attrs + " " + level_attrs_src(P["tcmp"])

    spell = tuple(P.get("spell") or ())

    def tsrc(f):
        return "(%s)" % ty_src(f) if "paren_ty" in spell else ty_src(f)
    vis = "pub(crate) " if "pub_crate" in spell else ""

    def fields_src(v):
        fs = v["fields"]
        if v["shape"] == "named":
            return "{ " + ", ".join("%s %sf%d: %s" % (attrs_src(f, mode, spell=spell), vis if P["kind"] == "struct" else "", j, tsrc(f)) for j, f in enumerate(fs)) + " }"
        if v["shape"] == "tuple":
            return "( " + ", ".join("%s %s%s" % (attrs_src(f, mode, spell=spell), vis if P["kind"] == "struct" else "", tsrc(f)) for f in fs) + " )"
        return ""
    if P["kind"] == "struct":
        v = P["variants"][0]
        body = fields_src(v)
        semi = "" if v["shape"] == "named" else ";"
        return "%s struct %s%s %s%s" % (head, name, generics, body, semi)
    # explicit discriminants (rendering only: the documented order is the declaration position)
    disc = any("disc" in v for v in P["variants"])
    def disc_src(d, i):
        # the same value in different spellings (the declaration position decides the order, whatever the discriminant says or looks like)
        return [" = %d", " = 0x%02x", " = (%d)", " = %d + 0", " = b'\\x%02x'", " = 1 * %d", " = %d as u8", " = { %d }"][(d + i) % 8] % d
    vs = ", ".join("%s A%d %s%s" % (level_attrs_src(v["vcmp"]), i, fields_src(v), disc_src(v["disc"], i) if "disc" in v else "") for i, v in enumerate(P["variants"]))
    return "%s %senum %s%s { %s }" % (head, "#[repr(u8)] " if disc else "", name, generics, vs)


def values_of(P):
    """Abstract values (spec vocabulary: variant index is 1-based) and their constructor expressions."""
    vals, ctors = [], []
    for vi, v in enumerate(P["variants"]):
        doms = [list(range(f["dom"])) + ([7] if f.get("nan") else []) for f in v["fields"]]
        for tup in itertools.product(*doms):
            vals.append({"v": vi + 1, "f": list(tup)})
            args = [("&%s(%d)" % (ty_src(dict(f, ref=False)), x)) if f.get("ref") else ("%s(%d)" % (ty_src(f), x)) for f, x in zip(v["fields"], tup)]
            path = "T" if P["kind"] == "struct" else "T::A%d" % vi
            if v["shape"] == "named":
                ctors.append("%s { %s }" % (path, ", ".join("f%d: %s" % (j, a) for j, a in enumerate(args))))
            elif v["shape"] == "tuple":
                ctors.append("%s(%s)" % (path, ", ".join(args)))
            else:
                ctors.append(path)
    return vals, ctors


STUBS = {
    "PartialEq": "impl ::core::cmp::PartialEq for T { fn eq(&self, _: &Self) -> bool { false } }",
    "Eq": "impl ::core::cmp::Eq for T {}",
    "PartialOrd": "impl ::core::cmp::PartialOrd for T { fn partial_cmp(&self, _: &Self) -> ::core::option::Option<::core::cmp::Ordering> { ::core::option::Option::None } }",
}


def stubs_for(D):
    need = set()
    if "Ord" in D:
        need |= {"PartialOrd", "Eq", "PartialEq"}
    if "PartialOrd" in D or "Eq" in D:
        need |= {"PartialEq"}
    return [STUBS[t] for t in ["PartialEq", "Eq", "PartialOrd"] if t in need and t not in D]


def module_src(idx, P, D, mode, entry, laws=False):
    vals, ctors = values_of(P)
    item = item_src(P, D, "T", mode, entry, for_rustc=True)
    lines = ["pub mod m%d {" % idx, "    " + item]
    for s in stubs_for(D):
        lines.append("    " + s)
    lines.append("    pub fn run() -> String {")
    lines.append("        let vals: ::std::vec::Vec<T> = vec![%s];" % ", ".join(ctors))
    lines.append("        let mut s = ::std::string::String::new();")
    lines.append("        s += \"{\\\"id\\\":%d\";" % idx)

    def put(key, expr):
        lines.append("        s += &format!(\",\\\"%s\\\":{}\", %s);" % (key, expr))
    if "PartialEq" in D:
        put("eq", "::dx_support::table_eq(&vals)")
        put("ne", "::dx_support::table_ne(&vals)")
    if "PartialOrd" in D:
        put("pcmp", "::dx_support::table_pcmp(&vals)")
        put("ops", "::dx_support::table_ops(&vals)")
    if "Ord" in D:
        put("cmp", "::dx_support::table_cmp(&vals)")
    if "Hash" in D:
        put("hash", "::dx_support::feeds(&vals)")
    if laws:
        if "PartialEq" in D and "PartialOrd" in D:
            put("eq_pord", "::dx_support::law_eq_pord(&vals)")
        if "PartialEq" in D and "Ord" in D:
            put("eq_ord", "::dx_support::law_eq_ord(&vals)")
        if "PartialOrd" in D and "Ord" in D:
            put("pord_ord", "::dx_support::law_pord_ord(&vals)")
        if "PartialEq" in D and "Hash" in D:
            put("eq_hash", "::dx_support::law_eq_hash(&vals)")
        if "PartialEq" in D:
            put("eq_equiv", "::dx_support::law_eq_equiv(&vals)")
        if "Ord" in D:
            put("ord_total", "::dx_support::law_ord_total(&vals)")
    lines.append("        s += \"}\\n\"; s")
    lines.append("    }")
    lines.append("}")
    return "\n".join(lines), vals


def batch_src(mods):
    head = "#![allow(dead_code, unused, non_camel_case_types, non_snake_case, clippy::all)]\n"
    body = "\n".join(m for m in mods)
    calls = "\n".join("    print!(\"{}\", m%d::run());" % i for i in mods_idx(mods))
    return head + body + "\nfn main() {\n    ::dx_support::quiet_panics();\n" + calls + "\n}\n"


def mods_idx(mods):
    import re
    return [int(re.match(r"pub mod m(\d+)", m).group(1)) for m in mods]


# ------------------------------------------------------------------------------------------------
# projection of an in-process expansion into per-trait classes (positional, wording-free)
# ------------------------------------------------------------------------------------------------
def classes_of(resp, D, entry):
    """Walk the output items in order: (re-emitted item for the attribute entry), then for each
    derived trait in listing order either a compile_error or the impl item(s) of that trait."""
    cl = {t: "none" for t in TRAITS}
    if resp.get("class") in ("panic", "unlexable", "unparsable"):
        return {t: resp.get("class") for t in TRAITS}, {"whole": resp.get("class")}
    items = list(resp["items"])
    info = {"whole": "ok"}
    if entry == "attr":
        if not items or items[0]["kind"] not in ("struct", "enum"):
            info["whole"] = "item_missing"
        else:
            items = items[1:]
    pos = 0
    for t in D:
        if pos < len(items) and items[pos]["kind"] == "compile_error":
            cl[t] = "error"
            pos += 1
            continue
        n = 0
        # (the last path segment identifies the trait: `::core::cmp::Ord` and `::std::cmp::Ord` are the same thing)
        while pos < len(items) and items[pos]["kind"] == "impl" and items[pos]["trait"].split("::")[-1] == t:
            pos += 1
            n += 1
        while n and pos < len(items) and items[pos]["kind"] == "const":   # Eq's hidden assertion item
            pos += 1
        cl[t] = "impl" if n else "missing"
    # impls of co-derived non-comparison traits (listed last) are not this family's subject
    while pos < len(items) and items[pos]["kind"] == "impl" and items[pos]["trait"].split("::")[-1] in ("Copy", "Clone", "Debug"):
        pos += 1
    if pos != len(items):
        info["whole"] = "extra_items"
        info["extra"] = [i["kind"] for i in items[pos:]][:5]
    return cl, info


def impl_key(resp):
    return "|".join(i["hash"] for i in resp["items"] if i["kind"] in ("impl", "const", "compile_error"))


# ------------------------------------------------------------------------------------------------
# shapes around a subject field
# ------------------------------------------------------------------------------------------------
def plain():
    return {a: dict(NOOPT) for a in ATTRS}


MATRIX_ORD = [("ign", False, "none"), ("rev", True, "none"), ("key", False, "key"), ("by", False, "by"), ("rkey", True, "key"), ("rby", True, "by")]
MATRIX_EQ = [("ign", False, "none"), ("key", False, "key"), ("by", False, "by")]


def random_cfg(rnd, p_plain=0.4):
    c = plain()
    if rnd.random() < p_plain:
        return c
    r = rnd.random()
    if r < 0.55:
        attrs = ["ord"]                       # `ord` affects every trait: such fields are accepted under any derived set
    elif r < 0.75:
        attrs = ["ord", rnd.choice(["partial_ord", "eq", "partial_eq", "hash"])]
    else:
        attrs = rnd.sample(ATTRS, rnd.choice([1, 2, 3]))
    for a in attrs:
        name, rev, sel = rnd.choice(MATRIX_ORD if a in ("ord", "partial_ord") else MATRIX_EQ)
        c[a] = {"ign": name == "ign", "rev": rev, "sel": sel}
    # `key = $` on a more specific attribute opts out of the key of a less specific one
    if rnd.random() < 0.12:
        lo, hi = rnd.choice([("ord", "partial_ord"), ("ord", "eq"), ("ord", "partial_eq"), ("ord", "hash"), ("eq", "partial_eq"), ("eq", "hash")])
        c = plain()
        c[lo] = {"ign": False, "rev": lo == "ord" and rnd.random() < 0.3, "sel": "key"}
        c[hi] = {"ign": False, "rev": False, "sel": "idkey"}
    return c


def random_item(rnd):
    """item with SEVERAL attributed fields (the matrix has one): 1..3 variants, 0..3 fields each, explicit discriminants sometimes"""
    kind = rnd.choice(["struct", "enum", "enum"])
    budget = 40

    def mkfields(n):
        nonlocal budget
        fs = []
        for _ in range(n):
            c = random_cfg(rnd)
            dom = rnd.choice([2, 3]) if c != plain() else 2
            if budget // dom < 1:
                dom = 1
            budget = max(1, budget // dom)
            fs.append(field(c, dom=dom))
            if rnd.random() < 0.12:
                fs[-1]["ref"] = True
        return fs
    if kind == "struct":
        shape = rnd.choice(["named", "tuple"])
        P = mkP("struct", [{"shape": shape, "fields": mkfields(rnd.choice([2, 2, 3]))}])
        if rnd.random() < 0.35:
            P["spell"] = rnd.sample(SPELLS, rnd.choice([1, 2]))
        if rnd.random() < 0.3:
            P["co"] = rnd.choice([["Copy", "Clone"], ["Clone"], ["Debug"]])
        return P
    vs = []
    nv = rnd.choice([1, 2, 3, 4])
    unit_only = rnd.random() < 0.15
    for vi in range(nv):
        shape = "unit" if unit_only else rnd.choice(["unit", "tuple", "named", "tuple"])
        budget = 12
        vs.append({"shape": shape, "fields": [] if shape == "unit" else mkfields(rnd.choice([1, 2, 3]))})
    P = mkP("enum", vs)
    if rnd.random() < 0.35:
        P["spell"] = rnd.sample(SPELLS, rnd.choice([1, 2]))
    if rnd.random() < 0.4:
        ds = rnd.sample(range(0, 9), nv)        # out of declaration order on purpose
        for v, d in zip(P["variants"], ds):
            v["disc"] = d
    if rnd.random() < 0.4:
        P["co"] = rnd.choice([["Copy", "Clone"], ["Clone"], ["Debug"], ["Clone", "Copy", "Debug"]])
    return P


def cfg_summary(P):
    out = []
    for vi, v in enumerate(P["variants"]):
        for j, f in enumerate(v["fields"]):
            bits = []
            for a in ATTRS:
                o = f["cmp"][a]
                x = ("i" if o["ign"] else "") + ("r" if o["rev"] else "") + {"none": "", "key": "k", "by": "b", "idkey": "d"}[o["sel"]]
                if x:
                    bits.append("%s:%s" % (a, x))
            if bits:
                out.append("%d.%d[%s]" % (vi + 1, j + 1, ",".join(bits)))
    return " ".join(out) or "-"


def pv_shapes():
    """float-like (partially ordered, NaN) field types: used only where nothing but PartialEq / PartialOrd is derived"""
    def s_pv(c): return mkP("struct", [{"shape": "tuple", "fields": [field(ty="pv", dom=1, nan=True), field(c, ty="pv", dom=2, nan=True), field(ty="pv", dom=1, nan=True)]}])
    def e_pv(c): return mkP("enum", [{"shape": "named", "fields": [field(c, ty="pv", dom=2, nan=True), field(ty="pv", dom=1, nan=True)]}, {"shape": "tuple", "fields": [field(ty="pv", dom=1, nan=True)]}])
    def s_rpv(c):
        P = s_pv(c)
        for f in P["variants"][0]["fields"]:
            f["ref"] = True
        return P
    def e_rpv(c):
        P = e_pv(c)
        P["variants"][0]["fields"][0]["ref"] = True
        P["variants"][1]["fields"][0]["ref"] = True
        return P
    return [("struct_pv", s_pv), ("enum_pv", e_pv), ("struct_ref_pv", s_rpv), ("enum_ref_pv", e_rpv)]


def mkP(kind, variants):
    return {"kind": kind, "tcmp": plain(), "variants": [dict(v, vcmp=plain()) for v in variants]}


def shapes(tier):
    """Contexts a subject field configuration is placed in: (tag, builder)."""
    def s_named_first(c): return mkP("struct", [{"shape": "named", "fields": [field(c, dom=6), field()]}])
    def s_named_last(c): return mkP("struct", [{"shape": "named", "fields": [field(), field(c, dom=6)]}])
    def s_tuple_only(c): return mkP("struct", [{"shape": "tuple", "fields": [field(c, dom=6)]}])
    def s_tuple_mid(c): return mkP("struct", [{"shape": "tuple", "fields": [field(), field(c, dom=3), field()]}])
    def e_var2(c): return mkP("enum", [{"shape": "unit", "fields": []},
                                       {"shape": "named", "fields": [field(c, dom=6), field()]},
                                       {"shape": "tuple", "fields": [field()]}])
    def e_tuple_last(c): return mkP("enum", [{"shape": "tuple", "fields": [field(), field(c, dom=6)]},
                                             {"shape": "unit", "fields": []}])
    def e_tuple_mid(c): return mkP("enum", [{"shape": "tuple", "fields": [field(), field(c, dom=6), field()]},
                                            {"shape": "named", "fields": [field()]}])
    q = [("struct_named_first", s_named_first), ("enum_variant2_named", e_var2), ("struct_tuple_only", s_tuple_only), ("enum_tuple_mid", e_tuple_mid)]
    if tier == "thorough":
        q += [("struct_named_last", s_named_last), ("struct_tuple_mid", s_tuple_mid), ("enum_tuple_last", e_tuple_last)]
    return q
