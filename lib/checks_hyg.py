"""C13 hygiene: every program family re-run under hostile renamings and shadowing scopes; the SAME trace
specifications must accept the renamed traces (descriptors are name-free, so this is a binding obligation)."""
import json, os, random, re, itertools
import dxlib as dx
import runfam as rf
import cmpfam as cf
import checks_run, checks_cmp

KEYWORDS = set("as break const continue crate else enum extern false fn for if impl in let loop match mod move mut pub ref return self Self static struct super trait true type unsafe use where while async await dyn abstract become box do final macro override priv typeof unsized virtual yield try union".split())

# names the drivers themselves use unqualified: never rename onto these
DRIVER_NAMES = set("String Vec vec format mk show emit VALS run out lg a b x y t s d v p c lc rc counts lines fields twin Inner tm Tm CF Pr i j k n r z q e m".split())

STATIC_LOCALS = ["this", "other", "state", "f", "rhs", "source", "lhs", "o", "to_index", "l_0", "_self_0", "_other_0", "_this_0", "hash", "eq", "cmp",
                 "partial_cmp", "__eq__0", "value", "result", "item", "index", "fmt", "default", "clone", "deref", "target"]
PRELUDE_TYPES = ["Option", "Eq", "Fn", "Clone", "Ordering", "Result", "Default", "PartialEq", "PartialOrd", "Ord", "Hash", "Hasher", "Debug", "Copy",
                 "Sized", "Into", "From", "Formatter", "Self_", "Iterator", "Box"]
PRELUDE_VARIANTS = ["Some", "None", "Ok", "Err", "Less", "Equal", "Greater", "Self_", "Break", "Continue"]
PARAMS = ["H", "T", "Fn", "Eq", "K", "Output", "Rhs", "Target", "This"]
METHOD_NAMES = ["clone", "clone_from", "eq", "ne", "cmp", "partial_cmp", "hash", "fmt", "default", "lt", "le", "deref", "into", "from", "add", "neg", "not", "max", "min"]
RAW = ["r#type", "r#match", "r#fn", "r#loop", "r#where", "r#impl", "r#trait", "r#async", "r#dyn"]

LOCAL_DEFS = ("#[allow(dead_code, non_camel_case_types)] pub struct Option; #[allow(dead_code)] pub struct Some; #[allow(dead_code)] pub struct None; "
              "#[allow(dead_code)] pub trait Eq {} #[allow(dead_code)] pub trait Fn {} #[allow(dead_code)] pub trait Clone {} #[allow(dead_code)] pub enum Ordering {} "
              "#[allow(dead_code)] pub struct Result; #[allow(dead_code)] pub trait Default {} #[allow(dead_code)] pub trait PartialEq {} #[allow(dead_code)] pub trait Ord {} "
              "#[allow(dead_code)] pub trait PartialOrd {} #[allow(dead_code)] pub trait Hash {} #[allow(dead_code)] pub trait Debug {} #[allow(dead_code)] pub trait Sized {} "
              "#[allow(dead_code)] pub trait Copy {} #[allow(dead_code)] pub trait Into {} #[allow(dead_code)] pub struct Formatter; "
              "#[allow(dead_code)] pub mod core {} #[allow(dead_code)] pub mod std {} #[allow(dead_code)] pub mod alloc {} ")


def introduced_identifiers():
    """identifiers that occur in real expansions but not in their inputs (so future generator locals are picked up)"""
    reqs = []
    items = ["struct Q<X> { a0: X, #[ord(key = $.len())] b0: String }", "enum Q<X> { V0, V1(X, u8), V2 { a0: X } }", "struct Q(u8, u8);"]
    traits = ["Clone, Copy, Debug, Default", "Ord, PartialOrd, Eq, PartialEq, Hash", "Add, SubAssign, Neg, Deref, DerefMut"]
    for it in items:
        for tr in traits:
            reqs.append({"k": "expand", "id": len(reqs), "entry": "attr", "attr": tr, "item": it.replace("V1(X, u8)", "#[default] V1(X, u8)"), "out": True})
    out = set()
    for q, r in zip(reqs, dx.expand(reqs)):
        if "out" not in r:
            continue
        ids_out = set(re.findall(r"[A-Za-z_][A-Za-z0-9_]*", r["out"]))
        ids_in = set(re.findall(r"[A-Za-z_][A-Za-z0-9_]*", q["item"] + " " + q["attr"]))
        out |= (ids_out - ids_in)
    return sorted(x for x in out if x not in KEYWORDS and not x.startswith("__") and x.strip("_") and x not in DRIVER_NAMES and len(x) < 20)


def names_in(src):
    ids = set(re.findall(r"[A-Za-z_][A-Za-z0-9_]*", src))
    lts = set(re.findall(r"'[a-z][a-z0-9_]*", src))
    return ids, lts


def make_map(src, scheme, rnd, dictionary):
    """renaming for the user-chosen names of a generated module: type, variants, fields, parameters, lifetimes"""
    ids, lts = names_in(src)
    m = {}
    fields = sorted(x for x in ids if re.fullmatch(r"f\d|g\d|inner", x))
    variants = sorted(x for x in ids if re.fullmatch(r"A\d|V\d|B\d|U9|Red|Green", x))
    types = sorted(x for x in ids if re.fullmatch(r"T|E|S\d+|LT|RT", x))
    params = sorted(x for x in ids if re.fullmatch(r"X|G", x))
    used = set()

    def pick(pool):
        pool = [p for p in pool if p not in used and p.replace("r#", "") not in ids and p not in DRIVER_NAMES]
        if not pool:
            return None
        c = rnd.choice(pool)
        used.add(c)
        return c
    if scheme == "locals":
        for f in fields:
            n = pick(dictionary["locals"])
            if n:
                m[f] = n
        for p in params:
            n = pick(["H", "T", "K", "This"])
            if n:
                m[p] = n
        for lt in lts:
            if lt in ("'l",):
                m["'l"] = "'a"
        # variants named like the trait methods the generated code calls (`Self::clone` must not be read as a variant)
        # (in this fixed order, so that every family sees `clone`, `eq`, `cmp`, .. on its first variants in every run)
        for v, n in zip(variants, [x for x in METHOD_NAMES if x not in ids and x not in used and x not in DRIVER_NAMES]):
            m[v] = n
            used.add(n)
    elif scheme == "case_pairs":
        # names that differ only in letter case must stay different names
        pairs = [("dx", "dX"), ("hash", "Hash"), ("clone", "Clone"), ("t", "T"), ("eq", "EQ"), ("o", "O"), ("_x", "x"), ("_v", "v_"), ("r#type", "type_")]
        rnd.shuffle(pairs)
        for k in range(0, len(fields) - 1, 2):
            a, b = pairs[(k // 2) % len(pairs)]
            if a not in ids and b not in ids and a not in used and b not in used:
                m[fields[k]], m[fields[k + 1]] = a, b
                used.update((a, b))
        if len(variants) >= 2 and "Ab" not in ids and "AB" not in ids:
            m[variants[0]], m[variants[1]] = "Ab", "AB"
    elif scheme == "prelude":
        for t in types:
            n = pick(PRELUDE_TYPES)
            if n:
                m[t] = n
        for v in variants:
            n = pick(PRELUDE_VARIANTS)
            if n:
                m[v] = n
        for p in params:
            n = pick(["Fn", "Eq", "Output", "Rhs", "Target"])
            if n:
                m[p] = n
    elif scheme == "raw":
        for f in fields:
            n = pick(RAW)
            if n:
                m[f] = n
        for v in variants:
            n = pick(["r#Self_", "r#type", "r#match", "r#async", "r#dyn", "r#loop", "r#fn"])
            if n:
                m[v] = n
        for p in params:
            n = pick(["r#trait", "r#impl", "r#where", "r#async", "r#dyn"])
            if n:
                m[p] = n
    elif scheme == "types_as_locals":
        for p in params:
            n = pick([x for x in dictionary["locals"] if re.fullmatch(r"[a-z_][a-z0-9_]*", x)])
            if n:
                m[p] = n
    return m


ITEM_LINE = re.compile(r"^\s*(#\[::derive_ex::derive_ex\(|#\[derive\(::derive_ex::Ex\)\])")


def wrap_item_line(src, mode):
    """shadow prelude / core names in the scope of the derive_ex item: a glob import (shadows the prelude) or local items.
    The drivers use absolute paths for everything the hostile module redefines."""
    first, rest = src.split("\n", 1)
    if mode == "shadow_glob":
        add = "    use crate::hostile::*;"
    else:
        # two local items of one name are a user-side error (E0428), not a question of hygiene: a hostile definition is left out where
        # the module itself defines an item of that name (the life family names its types `Hash`, `Clone`, `Debug`, .. in one guise)
        defs = re.findall(r"#\[allow\([^)]*\)\] pub (?:struct|trait|enum|mod) (\w+)[^;{]*(?:;|\{\}) ", LOCAL_DEFS)
        own = set(re.findall(r"\b(?:struct|enum|union|trait|type|mod)\s+(\w+)", rest))
        add = "    " + "".join(m.group(0) for m in re.finditer(r"#\[allow\([^)]*\)\] pub (?:struct|trait|enum|mod) (\w+)[^;{]*(?:;|\{\}) ", LOCAL_DEFS)
                               if m.group(1) not in own)
        assert len(defs) == 21, defs
    return first + "\n" + add + "\n" + rest


class Proxy:
    """a Check seen by a family run: tags violations with family + scheme, accumulates coverage"""

    def __init__(self, ck, family, scheme):
        self.ck, self.family, self.scheme = ck, family, scheme
        self.cov, self.notes, self.assumptions = {"samples": []}, {}, []
        self.tier = ck.tier

    def add_model(self, st):
        pass

    def add_judge(self, n, jst):
        self.ck.add_judge(n, jst)
        self.ck.notes.setdefault("events_per_family", {})
        key = "%s/%s" % (self.family, self.scheme)
        self.ck.notes["events_per_family"][key] = self.ck.notes["events_per_family"].get(key, 0) + n

    def sample(self, x, limit=4):
        if self.scheme != "locals" or x is None:
            return
        self.ck.sample({"family": self.family, "scheme": self.scheme, "sample": x}, limit=3)

    def violation(self, sig, payload):
        s = {"family": self.family, "scheme": self.scheme}
        s.update({k: v for k, v in sig.items() if k in ("kind", "codes", "op", "trait", "D", "cfg", "shape")})
        self.ck.violation(s, dict(payload, original_signature=sig))


TYPE_NAMES = ["o", "this", "other", "state", "f", "rhs", "source", "lhs", "to_index", "hash", "eq", "cmp", "partial_cmp", "value", "result", "fmt",
              "_f", "_eq", "_this", "_other", "clone", "default", "deref", "index", "item", "target", "e", "s", "x", "v", "a", "b"]
# (closure parameters are the USER's names: chosen outside the name list)
BY = {"partial_eq": "|qa: &i8, qb: &i8| qa == qb", "eq": "|qa: &i8, qb: &i8| qa == qb", "partial_ord": "|qa: &i8, qb: &i8| qa.partial_cmp(qb)",
      "ord": "|qa: &i8, qb: &i8| qa.cmp(qb)", "hash": "|qa: &i8, qs| ::core::hash::Hash::hash(qa, qs)"}
# (trait list, helper attributes of the first field)
TYPE_CFGS = [("Clone, Debug, Default", ""), ("Copy, Clone", ""), ("Add, SubAssign, Neg, Not", ""), ("Deref, DerefMut", None),
             ("PartialEq", "#[partial_eq(by = %(partial_eq)s)]"), ("PartialEq", "#[eq(by = %(eq)s)]"), ("PartialEq", "#[partial_ord(by = %(partial_ord)s)]"),
             ("PartialEq", "#[ord(by = %(ord)s)]"), ("PartialOrd, PartialEq", "#[partial_ord(by = %(partial_ord)s)]"), ("PartialOrd, PartialEq", "#[ord(by = %(ord)s)]"),
             ("Ord, PartialOrd, Eq, PartialEq", "#[ord(by = %(ord)s)]"), ("Hash", "#[hash(by = %(hash)s)]"), ("Eq, PartialEq, Hash", "#[eq(key = $.abs())]"),
             ("Ord, PartialOrd, Eq, PartialEq, Hash", "#[ord(reverse)]"), ("Ord, PartialOrd, Eq, PartialEq, Hash", "")]


def type_name_grid(ck, tier, auto):
    """the TYPE (tuple struct: its constructor lives in the value namespace, where binding patterns are resolved; unit struct; operand
    types of a user impl) named like an identifier the generator uses or could use for its own locals, parameters and helper functions"""
    names = list(TYPE_NAMES) + [x for x in auto if re.fullmatch(r"_?[a-z][a-z0-9_]*", x) and x not in TYPE_NAMES and x not in PRIMS]
    progs, meta = [], []
    for nm in names:
        for shape in ("tuple", "unit", "impl"):
            mods = []
            if shape == "impl":
                other = "Zq"
                for k, (base, req) in enumerate([("Add<%s> for %s" % (nm, other), "Add, AddAssign"), ("Sub<&%s> for &%s" % (other, nm), "Sub"), ("Mul<%s> for %s" % (nm, nm), "MulAssign")]):
                    rt, lt = base.split(" for ")
                    rty = rt[rt.index("<") + 1:-1]
                    mods.append("pub mod m%d { #[derive(Clone)] pub struct %s(pub i8); #[derive(Clone)] pub struct %s(pub i8);\n"
                                "#[::derive_ex::derive_ex(%s)] impl ::core::ops::%s { type Output = %s; fn %s(self, qr: %s) -> %s { let _ = &qr; %s(self.0) } } }"
                                % (k, nm, other if other != nm else "unused_", req, base, lt.lstrip("&"), base.split("<")[0].lower(), rty, lt.lstrip("&"), lt.lstrip("&")))
            else:
                for k, (tr, attr) in enumerate(TYPE_CFGS):
                    if shape == "unit":
                        if attr or attr is None or tr.startswith("Add"):
                            continue
                        body = "pub struct %s;" % nm
                    elif attr is None:
                        body = "pub struct %s(pub i8);" % nm
                    else:
                        body = "pub struct %s(%s pub i8, pub i8);" % (nm, attr % BY)
                    mods.append("pub mod m%d { #[::derive_ex::derive_ex(%s)] %s }" % (k, tr, body))
            progs.append("#![allow(dead_code, non_camel_case_types)]\n" + "\n".join(mods))
            meta.append({"name": nm, "shape": shape, "mods": mods})
    # the annotated type named like (the last segment of) the type of one of its fields: a different type all the same
    trs = "Clone, Debug, Default, PartialEq, Eq, PartialOrd, Ord, Hash"
    for nm, decl in (("Wrapper", "pub mod inner { #[derive(Clone, Debug, Default, PartialEq, Eq, PartialOrd, Ord, Hash)] pub struct Wrapper<T>(pub T); }\n"
                                 "#[::derive_ex::derive_ex(%s)] pub struct Wrapper<T>(pub inner::Wrapper<T>, pub u8);" % trs),
                     ("Option", "#[::derive_ex::derive_ex(%s)] pub struct Option<T>(pub ::core::option::Option<T>);" % trs),
                     ("Vec", "#[::derive_ex::derive_ex(%s)] pub enum Vec<T> { #[default] Empty, Items { items: ::std::vec::Vec<T> } }" % trs),
                     ("PhantomData", "#[::derive_ex::derive_ex(%s)] pub struct PhantomData<T, U>(pub ::core::marker::PhantomData<T>, pub ::core::option::Option<U>);" % trs),
                     ("Box", "#[::derive_ex::derive_ex(Clone, Debug, PartialEq)] pub struct Box<T>(pub ::core::option::Option<::std::boxed::Box<(T, ::std::boxed::Box<u8>)>>);")):
        mods = ["pub mod m0 { %s }" % decl]
        progs.append("#![allow(dead_code, non_camel_case_types)]\n" + "\n".join(mods))
        meta.append({"name": nm, "shape": "same_as_field_type", "mods": mods})
    wd = os.path.join(dx.WORK, "c13tn-%d" % os.getpid())

    def comp(ix):
        i, src = ix
        ok, diags = dx.check_only("t%d" % i, src, wd)
        return ok, dx.diag_summary(diags)[:3]
    res = dx.pmap(comp, list(enumerate(progs)))
    events = [{"ev": "compiles", "rustc_ok": ok} for ok, _ in res]
    n, bad, jst = dx.tlc_judge("Trace_Bounds", "Trace_Bounds.cfg", events, "c13tn")
    ck.add_judge(n, jst)
    for i in bad:
        m = meta[i]
        # attribute the failure to the smallest failing module
        culprit = None
        for k, mod in enumerate(m["mods"]):
            ok, diags = dx.check_only("t%d_%d" % (i, k), "#![allow(dead_code, non_camel_case_types)]\n" + mod, wd)
            if not ok:
                culprit = {"module": mod, "diagnostics": dx.diag_summary(diags)[:3]}
                break
        first = (culprit or {}).get("module", "")
        trait = first[first.index("derive_ex(") + 10:first.index(")]")] if "derive_ex(" in first else "?"
        ck.violation({"family": "type_name", "scheme": "locals", "name": m["name"], "shape": m["shape"], "trait": trait.replace(" ", "")},
                     {"what": "a type with this name collides with a name the generated code introduces", "first_failing_module": culprit, "diagnostics": res[i][1]})
    import shutil
    shutil.rmtree(wd, ignore_errors=True)
    ck.notes["type_name_grid"] = {"programs": len(progs), "names": len(names), "failing": len(bad)}


# names the generated code mentions (by absolute path today): a USER item of that name, referred to from the user's own key / by / default
# expressions, must keep meaning the user's item inside the generated method bodies (no `use` in generated code may capture it)
USER_EXPR_NAMES = ["Ordering", "Option", "Some", "None", "Hash", "Hasher", "Eq", "PartialEq", "PartialOrd", "Ord", "Clone", "Default", "Debug", "Formatter",
                   "Result", "Ok", "Err", "Into", "From", "Sized", "Fn", "Equal", "Less", "Greater", "Copy", "Deref", "DerefMut", "Add", "Neg", "fmt", "cmp",
                   "hash", "core", "std", "ops", "marker", "clone", "default", "convert", "option"]


def user_expr_name_grid(ck, tier):
    progs = []
    for nm in USER_EXPR_NAMES:
        is_mod = nm[0].islower()
        if is_mod:      # a user MODULE of that name holding the helper functions
            decl = ("pub mod %s { pub fn k(v: &u8) -> u8 { *v / 2 } pub fn eq_by(a: &u8, b: &u8) -> bool { a == b } "
                    "pub fn cmp_by(a: &u8, b: &u8) -> ::core::cmp::Ordering { ::core::cmp::Ord::cmp(a, b) } "
                    "pub fn pcmp_by(a: &u8, b: &u8) -> ::core::option::Option<::core::cmp::Ordering> { ::core::cmp::PartialOrd::partial_cmp(a, b) } "
                    "pub fn hash_by<S: ::core::hash::Hasher>(a: &u8, s: &mut S) { ::core::hash::Hash::hash(a, s) } pub fn dv() -> u8 { 7 } }" % nm)
        else:           # a user TYPE of that name with associated functions
            decl = ("pub struct %s; impl %s { pub fn k(v: &u8) -> u8 { *v / 2 } pub fn eq_by(a: &u8, b: &u8) -> bool { a == b } "
                    "pub fn cmp_by(a: &u8, b: &u8) -> ::core::cmp::Ordering { ::core::cmp::Ord::cmp(a, b) } "
                    "pub fn pcmp_by(a: &u8, b: &u8) -> ::core::option::Option<::core::cmp::Ordering> { ::core::cmp::PartialOrd::partial_cmp(a, b) } "
                    "pub fn hash_by<S: ::core::hash::Hasher>(a: &u8, s: &mut S) { ::core::hash::Hash::hash(a, s) } pub fn dv() -> u8 { 7 } }" % (nm, nm))
        fields = ("#[ord(key = N::k(&$))] pub a: u8, #[ord(by = N::cmp_by)] #[partial_ord(by = N::pcmp_by)] #[eq(by = N::eq_by)] #[hash(by = N::hash_by)] pub b: u8, "
                  "#[default(N::dv())] pub c: u8, #[partial_eq(key = N::k(&$))] #[hash(key = N::k(&$))] #[ord(key = N::k(&$))] pub d: u8").replace("N::", nm + "::")
        efields = fields.replace("pub ", "")
        for entry in ("attr", "derive"):
            head = rf.derive_head(["Ord", "PartialOrd", "Eq", "PartialEq", "Hash", "Default", "Debug", "Clone"], entry)
            progs.append("#![allow(dead_code, non_camel_case_types, non_snake_case)]\npub mod m { %s\n%s pub struct T { %s }\n%s pub enum E { #[default] A { %s }, B }\n}\n"
                         % (decl, head, fields, head, efields))
    wd = os.path.join(dx.WORK, "c13ue-%d" % os.getpid())

    def comp(ix):
        i, src = ix
        ok, diags = dx.check_only("u%d" % i, src, wd)
        return ok, dx.diag_summary(diags)[:3]
    res = dx.pmap(comp, list(enumerate(progs)))
    import shutil
    shutil.rmtree(wd, ignore_errors=True)
    events = [{"ev": "compiles", "rustc_ok": ok} for ok, _ in res]
    n, bad, jst = dx.tlc_judge("Trace_Bounds", "Trace_Bounds.cfg", events, "c13ue")
    ck.add_judge(n, jst)
    for i in bad:
        ck.violation({"family": "user_expr_name", "scheme": "prelude", "name": USER_EXPR_NAMES[i // 2], "codes": ",".join(sorted(set(d.get("code") or "?" for d in res[i][1])))},
                     {"what": "a user item with this name, used inside key / by / default expressions, is captured by the generated code", "source": progs[i], "diagnostics": res[i][1]})
    ck.notes["user_expr_name_grid"] = {"programs": len(progs), "failing": len(bad)}


# user CONSTANTS named like well-known values of the prelude / std, written as the bare path of a `#[default(..)]` expression on a field of
# another type: a path is converted with `Into` whatever it is called (a generator that takes `None` for `Option::None` drops the conversion)
USER_VALUE_NAMES = ["None", "Some", "Ok", "Err", "Default", "Less", "Equal", "Greater", "PhantomData", "MAX", "MIN", "NAN", "EMPTY", "default", "new", "String", "Vec",
                    "Self_", "this", "value", "Into", "From"]


def user_value_name_grid(ck, tier):
    progs = []
    for nm in USER_VALUE_NAMES:
        for entry in ("attr", "derive"):
            head = rf.derive_head(["Default", "Clone", "Debug", "PartialEq", "PartialOrd"], entry)
            progs.append("#![allow(dead_code, non_camel_case_types, non_snake_case, non_upper_case_globals)]\npub mod m { pub const %s: &str = \"v\";\n"
                         "%s pub struct T { #[default(%s)] pub a: ::std::string::String, pub b: u8 }\n"
                         "%s pub enum E { #[default] A(#[default(%s)] ::std::string::String, u8), B }\n"
                         "pub fn probe() -> bool { <T as ::core::default::Default>::default().a == \"v\" } }\n" % (nm, head, nm, head, nm))
    wd = os.path.join(dx.WORK, "c13uv-%d" % os.getpid())

    def comp(ix):
        i, src = ix
        ok, diags = dx.check_only("u%d" % i, src, wd)
        return ok, dx.diag_summary(diags)[:3]
    res = dx.pmap(comp, list(enumerate(progs)))
    import shutil
    shutil.rmtree(wd, ignore_errors=True)
    events = [{"ev": "compiles", "rustc_ok": ok} for ok, _ in res]
    n, bad, jst = dx.tlc_judge("Trace_Bounds", "Trace_Bounds.cfg", events, "c13uv")
    ck.add_judge(n, jst)
    for i in bad:
        ck.violation({"family": "user_value_name", "scheme": "prelude", "name": USER_VALUE_NAMES[i // 2], "codes": ",".join(sorted(set(d.get("code") or "?" for d in res[i][1])))},
                     {"what": "a user constant with this name, written as a default expression, is not treated like any other path", "source": progs[i], "diagnostics": res[i][1]})
    ck.notes["user_value_name_grid"] = {"programs": len(progs), "failing": len(bad)}


# well-known std type names defined by the USER (a different type all the same) and used as field types of a generic item: the generated
# bounds and bodies must treat them like any other type
USER_TYPE_NAMES = ["PhantomData", "PhantomPinned", "Option", "Vec", "Box", "Rc", "Arc", "Cell", "RefCell", "Result", "Cow", "Wrapping", "Reverse", "ManuallyDrop",
                   "String", "Ordering", "Pin", "NonNull", "Sized", "Unsized", "str", "Self_", "Infallible"]


def user_type_name_grid(ck, tier):
    progs = []
    all9 = ["Clone", "Debug", "Default", "PartialEq", "Eq", "PartialOrd", "Ord", "Hash"]
    for nm in USER_TYPE_NAMES:
        if nm in ("str",):
            continue
        decl = "#[derive(Clone, Debug, Default, PartialEq, Eq, PartialOrd, Ord, Hash)] pub struct %s<T>(pub T);" % nm
        for entry in ("attr", "derive"):
            head = rf.derive_head(all9, entry)
            ehead = rf.derive_head(["Clone", "Debug", "PartialEq", "Eq", "PartialOrd", "Ord", "Hash"], entry)
            progs.append("#![allow(dead_code, non_camel_case_types)]\npub mod m { %s\n%s pub struct X<G>(pub %s<G>, pub ::core::option::Option<%s<G>>, pub u8);\n"
                         "%s pub enum E<G, H_> { A(%s<(G, H_)>), B { x: [%s<G>; 2] }, C }\n"
                         "pub fn use_them() -> bool { let x = X(%s(1u8), ::core::option::Option::None, 2); let y = ::core::clone::Clone::clone(&x); x == y && E::<u8, u8>::C == E::C }\n}\n"
                         % (decl, head, nm, nm, ehead, nm, nm, nm))
    wd = os.path.join(dx.WORK, "c13ut-%d" % os.getpid())

    def comp(ix):
        i, src = ix
        ok, diags = dx.check_only("v%d" % i, src, wd)
        return ok, dx.diag_summary(diags)[:3]
    res = dx.pmap(comp, list(enumerate(progs)))
    import shutil
    shutil.rmtree(wd, ignore_errors=True)
    events = [{"ev": "compiles", "rustc_ok": ok} for ok, _ in res]
    n, bad, jst = dx.tlc_judge("Trace_Bounds", "Trace_Bounds.cfg", events, "c13ut")
    ck.add_judge(n, jst)
    names = [nm for nm in USER_TYPE_NAMES if nm != "str"]
    for i in bad:
        ck.violation({"family": "user_type_name", "scheme": "prelude", "name": names[i // 2], "codes": ",".join(sorted(set(d.get("code") or "?" for d in res[i][1])))},
                     {"what": "a user type with a well-known name, used as a field type of a generic item, is not treated like any other type", "source": progs[i], "diagnostics": res[i][1]})
    ck.notes["user_type_name_grid"] = {"programs": len(progs), "failing": len(bad)}


def raw_mix_grid(ck, tier):
    """a parameter declared / used once with and once without the raw prefix (`r#T` and `T` are the same name)"""
    items = [("Debug, Clone, PartialEq", "pub struct S<T: ?::core::marker::Sized>(pub u8, pub r#T);"),
             ("Debug, Clone, PartialEq", "pub struct S<r#T: ?::core::marker::Sized> { pub n: u8, pub tail: T }"),
             ("Debug, PartialEq, Eq, Hash", "pub struct S<T>(pub u8, pub T) where r#T: ?::core::marker::Sized;"),
             ("Debug, PartialEq, PartialOrd", "pub struct S<r#T>(pub u8, pub T) where T: ?::core::marker::Sized;"),
             ("Debug, Clone, Default, PartialEq, Eq, PartialOrd, Ord, Hash", "pub enum E<r#T, U> { #[default] A, B(T, r#U), C { x: r#T, y: ::core::option::Option<U> } }"),
             ("Debug, Clone, Default, PartialEq, Eq, Hash", "pub struct S<const r#N: usize, const M: usize>(pub [u8; N], pub [u16; r#M], pub ::dx_support::Cn<r#N>);"),
             ("Add, Neg, Clone", "pub struct S<r#T>(pub T, pub r#T);"),
             ("Deref, DerefMut", "pub struct S<r#T> { pub inner: ::std::vec::Vec<T> }"),
             ("Debug, Clone, PartialEq", "pub struct S<r#type: ?::core::marker::Sized>(pub u8, pub r#type);")]
    progs = []
    for tr, it in items:
        for entry in ("attr", "derive"):
            progs.append("#![allow(dead_code, non_camel_case_types, non_upper_case_globals)]\n%s %s\n" % (rf.derive_head([x.strip() for x in tr.split(",")], entry), it))
    wd = os.path.join(dx.WORK, "c13rm-%d" % os.getpid())

    def comp(ix):
        i, src = ix
        ok, diags = dx.check_only("r%d" % i, src, wd)
        return ok, dx.diag_summary(diags)[:3]
    res = dx.pmap(comp, list(enumerate(progs)))
    import shutil
    shutil.rmtree(wd, ignore_errors=True)
    events = [{"ev": "compiles", "rustc_ok": ok} for ok, _ in res]
    n, bad, jst = dx.tlc_judge("Trace_Bounds", "Trace_Bounds.cfg", events, "c13rm")
    ck.add_judge(n, jst)
    for i in bad:
        ck.violation({"family": "raw_mix", "scheme": "raw", "item": items[i // 2][1][:60], "codes": ",".join(sorted(set(d.get("code") or "?" for d in res[i][1])))},
                     {"what": "a parameter spelled once with and once without `r#` is not recognised as the same name", "source": progs[i], "diagnostics": res[i][1]})
    ck.notes["raw_mix_grid"] = {"programs": len(progs), "failing": len(bad)}


def user_fn_name_grid(ck, tier):
    """user expressions (default values) that call free functions named like EARLIER fields of the same item keep meaning the functions"""
    mods = [(k, rf.default_shadow_module(k, entry)) for k, entry in enumerate(("attr", "derive"))]
    res, failed = checks_run.run_modules(mods, "c13fn")
    events = [{"ev": "compiles", "rustc_ok": bool(k in res and res[k][0].get("equal"))} for k, _ in mods]
    n, bad, jst = dx.tlc_judge("Trace_Bounds", "Trace_Bounds.cfg", events, "c13fn")
    ck.add_judge(n, jst)
    for i in bad:
        ck.violation({"family": "user_fn_name", "scheme": "locals", "entry": ("attr", "derive")[i], "codes": ",".join(sorted(set(d.get("code") or "?" for d in (failed.get(i) or []))))},
                     {"what": "a default expression calling a free function named like an earlier field does not mean the function any more", "source": mods[i][1],
                      "diagnostics": failed.get(i), "observed": res.get(i)})
    ck.notes["user_fn_name_grid"] = {"programs": len(mods), "failing": len(bad)}


PRIMS = set("bool char str u8 u16 u32 u64 u128 usize i8 i16 i32 i64 i128 isize f32 f64 core std alloc crate".split())


def c13(tier):
    ck = dx.Check("C13", tier)
    rnd = random.Random(dx.seed())
    auto = introduced_identifiers()
    dictionary = {"locals": sorted(set(STATIC_LOCALS + [x for x in auto if re.fullmatch(r"[a-z_][a-z0-9_]*", x)]))}
    ck.notes["auto_collected_identifiers"] = auto
    schemes = ["locals", "prelude", "raw", "types_as_locals", "case_pairs", "shadow_glob", "shadow_local"]
    maps_used = []

    def transform_for(scheme):
        def T(mods):
            if scheme in ("shadow_glob", "shadow_local"):
                return [(i, wrap_item_line(s, scheme)) for i, s in mods]
            reqs, keep = [], []
            for i, s in mods:
                m = make_map(s, scheme, rnd, dictionary)
                if len(maps_used) < 5 and m:
                    maps_used.append({"scheme": scheme, "map": m})
                reqs.append({"k": "rename", "id": i, "src": s, "map": m})
            rs = dx.expand(reqs)
            res = []
            for (i, s), r in zip(mods, rs):
                if "src" not in r:
                    raise dx.ToolError("rename failed: %s" % r)
                res.append((i, r["src"]))
            return res
        return T
    fams = [("clone", checks_run.c07), ("ops", checks_run.c08), ("implops", checks_run.c09), ("debug", checks_run.c10), ("default", checks_run.c11),
            ("deref", checks_run.c18)]
    for scheme in schemes:
        for fam, fn in fams:
            if fam == "implops" and scheme.startswith("shadow"):
                continue      # the user's impl body itself uses prelude names: shadowing them would break USER code
            hook = {"ck": Proxy(ck, fam, scheme), "transform": transform_for(scheme), "renamed": True}
            fn("quick", hook)
        # histories on one type deriving everything together (MC_Life); Debug is left out: the rendering names the user's names
        import checks_life
        if tier == "thorough" or scheme in ("locals", "prelude", "raw", "shadow_glob"):
            checks_life.life_stage(Proxy(ck, "life", scheme), "quick", ["C01", "C06", "C07", "C08", "C11", "C18"], transform=transform_for(scheme),
                                   tag="life_c13", limit=70 if tier == "quick" else 400)
        # comparison family: a seeded sample of the accepted matrix
        hook = {"ck": Proxy(ck, "cmp", scheme), "transform": transform_for(scheme)}
        checks_cmp.hygiene_sample(tier, hook, rnd)
    ck.notes["example_maps"] = maps_used
    # no_std: metadata-only build of core-only programs
    no_std_programs(ck, tier, rnd)
    const_param_grid(ck, tier)
    type_name_grid(ck, tier, auto)
    user_expr_name_grid(ck, tier)
    user_value_name_grid(ck, tier)
    user_type_name_grid(ck, tier)
    raw_mix_grid(ck, tier)
    user_fn_name_grid(ck, tier)
    ck.cov["evaluations"] = ck.cov["traces_validated_against_impl"]
    ck.cov["distinct_nontrivial"] = len(ck.notes.get("events_per_family", {}))
    ck.cov["rule"] = ("every run-time family (clone, struct operators, impl operators, debug, default, deref, comparison sample) re-run under 4 renaming schemes "
                      "(generator locals incl. automatically collected ones, prelude / core names, raw keywords, type parameters named like locals) and 2 shadowing scopes "
                      "(glob import / local items redefining prelude names), judged by the same trace specifications; plus #![no_std] metadata-only builds")
    return ck.finish()


def no_std_programs(ck, tier, rnd):
    progs = []
    shapes = ["pub struct T { pub a: u8, pub b: ::core::option::Option<i8> }", "pub struct T(pub u8, pub [u8; 2]);", "pub struct T;",
              "pub enum T { A, B(u8), C { x: i16, y: (u8, bool) } }", "pub struct T<G> { pub g: G, pub p: ::core::marker::PhantomData<G> }",
              "pub enum T<'l, G> { #[default] N, R(&'l G) }"]
    for sh in shapes:
        traits = ["Clone", "Debug", "PartialEq", "Eq", "PartialOrd", "Ord", "Hash"]
        if "Default" in sh or "#[default]" in sh or "struct" in sh:
            traits.append("Default")
        if "R(&'l G)" in sh:
            traits = ["Clone", "Debug", "PartialEq", "Default"]
        if "struct T(pub u8" in sh:
            traits += ["Copy"]
        for entry in ("attr", "derive"):
            progs.append("#![no_std]\n#![allow(dead_code)]\n%s %s\n" % (rf.derive_head(traits, entry), sh))
    progs.append("#![no_std]\n#![allow(dead_code)]\n#[::derive_ex::derive_ex(Add, SubAssign, Neg, Deref, DerefMut)] pub struct T(pub i32);\n")
    for traits in ("Ord, PartialOrd, Eq, PartialEq", "PartialOrd, PartialEq"):
        progs.append("#![no_std]\n#![allow(dead_code)]\n#[::derive_ex::derive_ex(%s)] pub struct T { #[ord(reverse)] pub a: u8, #[ord(reverse, key = $ / 2)] pub b: u8, pub c: u8 }\n" % traits)
        progs.append("#![no_std]\n#![allow(dead_code)]\n#[derive(::derive_ex::Ex)] #[derive_ex(%s)] pub enum T { A(#[ord(reverse)] u8, u8), B { #[ord(ignore)] x: u8, #[ord(reverse, by = |a, b| a.cmp(b))] y: u8 } }\n" % traits)
    progs.append("#![no_std]\n#![allow(dead_code)]\n#[::derive_ex::derive_ex(PartialOrd, PartialEq)] pub struct T(#[partial_ord(reverse)] pub u8, #[partial_ord(reverse, by = |a, b| a.partial_cmp(b))] pub u8);\n")
    progs.append("#![no_std]\n#![allow(dead_code)]\n#[::derive_ex::derive_ex(Default, Debug, Clone)] pub enum T<G> { #[default] A, B(#[debug(ignore)] G, #[default(5)] u8), C { #[debug(transparent)] x: u8 } }\n")
    progs.append("#![no_std]\n#![allow(dead_code)]\n#[::derive_ex::derive_ex(Ord, PartialOrd, Eq, PartialEq, Hash)] pub struct T { #[ord(key = $ / 2)] pub a: u8, #[ord(by = |a, b| a.cmp(b))] #[hash(key = $)] pub b: u8, #[eq(ignore)] #[ord(ignore)] pub c: u8 }\n")
    wd = os.path.join(dx.WORK, "c13ns-%d" % os.getpid())

    def comp(ix):
        i, src = ix
        ok, diags = dx.check_only("n%d" % i, src, wd)
        return ok, dx.diag_summary(diags)[:3]
    res = dx.pmap(comp, list(enumerate(progs)))
    import shutil
    shutil.rmtree(wd, ignore_errors=True)
    events = [{"ev": "compiles", "rustc_ok": ok} for ok, _ in res]
    n, bad, jst = dx.tlc_judge("Trace_Bounds", "Trace_Bounds.cfg", events, "c13ns")
    ck.add_judge(n, jst)
    for i in bad:
        ck.violation({"family": "no_std", "scheme": "no_std", "codes": ",".join(sorted(set(d.get("code") or "?" for d in res[i][1])))},
                     {"what": "does not compile under #![no_std]", "source": progs[i], "diagnostics": res[i][1]})


CONST_NAMES = ["o", "this", "other", "state", "f", "rhs", "source", "lhs", "to_index", "l_0", "r_0", "_0", "_self_0", "_other_0", "_this_0", "hash", "eq", "cmp",
               "partial_cmp", "value", "N", "T", "H"]
CONST_TRAITS = ["Clone", "Copy, Clone", "Debug", "Default", "PartialEq", "Eq, PartialEq", "PartialOrd, PartialEq", "Ord, PartialOrd, Eq, PartialEq", "Hash",
                "Add", "SubAssign", "Neg", "Deref", "DerefMut, Deref"]


def const_param_grid(ck, tier):
    """a const generic parameter named like an identifier the generator uses for its own locals (the property names them)"""
    progs, meta = [], []
    for nm in CONST_NAMES:
        for tr in CONST_TRAITS:
            for kind in ("struct", "enum"):
                first = tr.split(",")[0]
                if kind == "enum" and first in ("Add", "SubAssign", "Neg", "Deref", "DerefMut"):
                    continue
                if first in ("Deref", "DerefMut"):
                    item = "pub struct X<const %s: usize>(pub [i8; %s]);" % (nm, nm)
                elif kind == "struct":
                    item = "pub struct X<const %s: usize>(pub [i8; %s], pub i8);" % (nm, nm)
                else:
                    item = "pub enum X<const %s: usize> { A([i8; %s], i8), %sB }" % (nm, nm, "#[default] " if first == "Default" else "")
                if first in ("Add", "SubAssign", "Neg"):
                    item = "pub struct X<const %s: usize>(pub W<%s>);\n#[derive(Clone, Copy)] pub struct W<const K: usize>;\n" % (nm, nm) + \
                        "".join("impl<const K: usize> ::core::ops::%s for %sW<K> { type Output = W<K>; fn %s(self%s) -> W<K> { W } }\n" % (t, l, f, a)
                                for (t, l, f, a) in [("Add<W<K>>", "", "add", ", _: W<K>"), ("Add<&W<K>>", "", "add", ", _: &W<K>"), ("Add<W<K>>", "&", "add", ", _: W<K>"),
                                                     ("Add<&W<K>>", "&", "add", ", _: &W<K>"), ("Neg", "", "neg", ""), ("Neg", "&", "neg", "")]) + \
                        "impl<const K: usize> ::core::ops::SubAssign<W<K>> for W<K> { fn sub_assign(&mut self, _: W<K>) {} }\nimpl<const K: usize> ::core::ops::SubAssign<&W<K>> for W<K> { fn sub_assign(&mut self, _: &W<K>) {} }\n"
                if first == "Default" and kind == "struct":
                    item = "pub struct X<const %s: usize>(pub ::core::marker::PhantomData<[i8; %s]>, pub i8);" % (nm, nm)
                head, rest = (item.split("\n", 1) + [""])[:2]
                progs.append("#![allow(dead_code, non_upper_case_globals)]\n#[::derive_ex::derive_ex(%s)] %s\n%s" % (tr, head, rest))
                meta.append({"name": nm, "trait": tr.replace(" ", ""), "item": kind})
    wd = os.path.join(dx.WORK, "c13cp-%d" % os.getpid())

    def comp(ix):
        i, src = ix
        ok, diags = dx.check_only("k%d" % i, src, wd)
        return ok, dx.diag_summary(diags)[:2]
    res = dx.pmap(comp, list(enumerate(progs)))
    import shutil
    shutil.rmtree(wd, ignore_errors=True)
    events = [{"ev": "compiles", "rustc_ok": ok} for ok, _ in res]
    n, bad, jst = dx.tlc_judge("Trace_Bounds", "Trace_Bounds.cfg", events, "c13cp")
    ck.add_judge(n, jst)
    for i in bad:
        m = meta[i]
        ck.violation({"family": "const_param", "scheme": "locals", "name": m["name"], "trait": m["trait"], "item": m["item"]},
                     {"what": "a const parameter with this name collides with a local of the generated code", "source": progs[i], "diagnostics": res[i][1]})
    ck.notes["const_param_grid"] = {"programs": len(progs), "failing": len(bad)}
