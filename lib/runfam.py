"""Run-time families C07 (Clone), C08 (struct operators), C09 (impl operators): program generators.
The generators only write programs down and log what the real code does."""
import itertools, json, random
import dxlib as dx

BINOPS = ["Add", "BitAnd", "BitOr", "BitXor", "Div", "Mul", "Rem", "Shl", "Shr", "Sub"]
FN = {"Add": "add", "BitAnd": "bitand", "BitOr": "bitor", "BitXor": "bitxor", "Div": "div", "Mul": "mul", "Rem": "rem",
      "Shl": "shl", "Shr": "shr", "Sub": "sub", "Neg": "neg", "Not": "not"}
SYM = {"Add": "+", "BitAnd": "&", "BitOr": "|", "BitXor": "^", "Div": "/", "Mul": "*", "Rem": "%", "Shl": "<<", "Shr": ">>", "Sub": "-",
       "Neg": "-", "Not": "!"}
HOSTILE_MOD = """pub mod hostile {
    #![allow(dead_code, non_camel_case_types, non_upper_case_globals, non_snake_case)]
    pub struct Option; pub struct Some; pub struct None; pub struct Result; pub struct Ok; pub struct Err;
    pub trait Eq {} pub trait PartialEq {} pub trait Ord {} pub trait PartialOrd {} pub trait Hash {} pub trait Hasher {}
    pub trait Clone {} pub trait Copy {} pub trait Debug {} pub trait Default {} pub trait Fn {} pub trait FnMut {} pub trait FnOnce {}
    pub trait Sized {} pub trait Into {} pub trait From {} pub trait Deref {} pub trait DerefMut {} pub trait Add {} pub trait Neg {}
    pub enum Ordering {} pub struct Formatter; pub struct Less; pub struct Equal; pub struct Greater;
    pub fn unreachable() {} pub fn stringify() {} pub fn drop() {}
    pub mod fmt {} pub mod cmp {} pub mod ops {} pub mod hash {} pub mod clone {} pub mod option {} pub mod marker {} pub mod default {} pub mod convert {}
}
"""
HEAD = "#![allow(dead_code, unused, non_camel_case_types, non_snake_case, clippy::all)]\n" + HOSTILE_MOD


def derive_head(traits, entry):
    if entry == "path2":
        # one path-spelled list per trait, stacked: each is an attribute-macro invocation of its own (expanded one after the other)
        ts = [t for t in traits if not t.startswith("bound(")]
        shared = [t for t in traits if t.startswith("bound(")]
        return " ".join("#[::derive_ex::derive_ex(%s)]" % ", ".join([t] + shared) for t in ts)
    if entry == "attr":
        return "#[::derive_ex::derive_ex(%s)]" % ", ".join(traits)
    return "#[derive(::derive_ex::Ex)] #[derive_ex(%s)]" % ", ".join(traits)


# ------------------------------------------------------------------------------------------------
# C07
# ------------------------------------------------------------------------------------------------
def shape_values(shape):
    """abstract values of a shape (spec vocabulary)"""
    out = []
    for vi, n in enumerate(shape):
        for tup in itertools.product((0, 1), repeat=n):
            out.append({"v": vi + 1, "f": [{"tag": j, "val": x} for j, x in enumerate(tup)]})
    return out


def clone_module(idx, shape, entry, named_mask, generic=False, extra=(), bounds=None, disc=False, repr_=None):
    """module with one type of the given shape (number of fields per variant) deriving Clone and a driver that
    executes every transition of MC_Clone from every state"""
    is_struct = len(shape) == 1
    cf_name = "CFC" if "Copy" in extra else "CF"
    ty = ("::dx_support::" + cf_name) if not generic else "X"
    g = "<X>" if generic else ""
    inst = ("<::dx_support::%s>" % cf_name) if generic else ""
    traits = list(extra) + ["Clone"]
    if bounds == "this_dd":
        traits = [t + "(bound(..))" if t == "Clone" else t for t in traits]
    elif bounds == "shared_empty":
        traits = traits + ["bound()"]
    elif bounds == "shared_dd":
        traits = traits + ["bound(..)"]

    def decl(vi, n):
        named = (named_mask >> vi) & 1
        if n == 0:
            return ("", "unit")
        if named:
            return ("{ " + ", ".join("f%d: %s" % (j, ty) for j in range(n)) + " }", "named")
        return ("(" + ", ".join(ty for j in range(n)) + ")", "tuple")
    lines = ["pub mod m%d {" % idx, "    use ::dx_support::%s as CF;" % cf_name]
    if is_struct:
        body, kind = decl(0, shape[0])
        lines.append("    %s %spub struct T%s %s%s" % (derive_head(traits, entry), ("#[repr(%s)] " % repr_) if repr_ else "", g, body, "" if kind == "named" else ";"))
    else:
        # explicit discriminants (out of declaration order) need a primitive representation
        vs = ", ".join("A%d %s%s" % (vi, decl(vi, n)[0], (" = %d" % ((7 * (vi + 3)) % 11)) if disc else "") for vi, n in enumerate(shape))
        lines.append("    %s %spub enum T%s { %s }" % (derive_head(traits, entry), "#[repr(u8)] " if disc else "", g, vs))
    TT = "T" + inst
    # constructor and projection (no Clone involved)
    lines.append("    fn mk(v: usize, x: &[u8]) -> %s { match v {" % TT)
    for vi, n in enumerate(shape):
        _, kind = decl(vi, n)
        path = "T" if is_struct else "T::A%d" % vi
        args = ["CF(%d, x[%d])" % (j, j) for j in range(n)]
        if kind == "unit":
            e = path
        elif kind == "named":
            e = "%s { %s }" % (path, ", ".join("f%d: %s" % (j, a) for j, a in enumerate(args)))
        else:
            e = "%s(%s)" % (path, ", ".join(args))
        lines.append("        %d => %s," % (vi + 1, e))
    lines.append("        _ => unreachable!() } }")
    lines.append("    fn show(t: &%s) -> String { match t {" % TT)
    for vi, n in enumerate(shape):
        _, kind = decl(vi, n)
        path = "T" if is_struct else "T::A%d" % vi
        bind = ["g%d" % j for j in range(n)]
        if kind == "unit":
            pat = path
        elif kind == "named":
            pat = "%s { %s }" % (path, ", ".join("f%d: g%d" % (j, j) for j in range(n)))
        else:
            pat = "%s(%s)" % (path, ", ".join(bind))
        fs = " + \",\" + ".join("&format!(\"{{\\\"tag\\\":{},\\\"val\\\":{}}}\", g%d.0, g%d.1)" % (j, j) for j in range(n)) or "\"\""
        lines.append("        %s => format!(\"{{\\\"v\\\":%d,\\\"f\\\":[{}]}}\", String::new() + %s)," % (pat, vi + 1, fs))
    lines.append("    } }")
    vals = shape_values(shape)
    arr = ", ".join("(%d, &[%s])" % (v["v"], ", ".join(str(f["val"]) for f in v["f"])) for v in vals)
    lines.append("    const VALS: &[(usize, &[u8])] = &[%s];" % arr)
    lines.append("""    fn emit(out: &mut String, x: (usize, &[u8]), y: (usize, &[u8]), act: &str, d: &str, s: &str, a: &%s, b: &%s, lg: Vec<String>) {
        let (pa, pb) = if d == "a" { (mk(x.0, x.1), mk(y.0, y.1)) } else { (mk(y.0, y.1), mk(x.0, x.1)) };
        out.push_str(&format!("{{\\"id\\":%d,\\"pre\\":{{\\"a\\":{},\\"b\\":{}}},\\"act\\":\\"{}\\",\\"d\\":\\"{}\\",\\"s\\":\\"{}\\",\\"log\\":{},\\"post\\":{{\\"a\\":{},\\"b\\":{}}}}}\\n",
            show(&pa), show(&pb), act, d, s, ::dx_support::json_strs(&lg), show(a), show(b)));
    }""" % (TT, TT, idx))
    lines.append("""    pub fn run() -> String {
        let mut out = String::new();
        for &x in VALS { for &y in VALS {
            // x is the destination's value, y the source's value
            { let mut a = mk(x.0, x.1); let b = mk(y.0, y.1); ::dx_support::take_log();
              a = ::core::clone::Clone::clone(&b); let lg = ::dx_support::take_log(); emit(&mut out, x, y, "clone", "a", "b", &a, &b, lg); }
            { let mut a = mk(x.0, x.1); let b = mk(y.0, y.1); ::dx_support::take_log();
              ::core::clone::Clone::clone_from(&mut a, &b); let lg = ::dx_support::take_log(); emit(&mut out, x, y, "clone_from", "a", "b", &a, &b, lg); }
            { let mut b = mk(x.0, x.1); let a = mk(y.0, y.1); ::dx_support::take_log();
              b = ::core::clone::Clone::clone(&a); let lg = ::dx_support::take_log(); emit(&mut out, x, y, "clone", "b", "a", &a, &b, lg); }
            { let mut b = mk(x.0, x.1); let a = mk(y.0, y.1); ::dx_support::take_log();
              ::core::clone::Clone::clone_from(&mut b, &a); let lg = ::dx_support::take_log(); emit(&mut out, x, y, "clone_from", "b", "a", &a, &b, lg); }
        } }
        out
    }""")
    return "\n".join(lines + ["}"])


FIELD_FORMS = [("(CF, CF)", "(CF(%d, 1), CF(%d, 2))"), ("[CF; 2]", "[CF(%d, 1), CF(%d, 2)]"), ("::core::option::Option<CF>", "::core::option::Option::Some(CF(%d, %d))"),
               ("::std::vec::Vec<CF>", "::std::vec![CF(%d, 1), CF(%d, 2)]"), ("::std::boxed::Box<CF>", "::std::boxed::Box::new(CF(%d, %d))"),
               ("((CF,), CF)", "((CF(%d, 1),), CF(%d, 2))"), ("CF", "CF(%d, %d)")]


def clone_fieldwise_module(idx, kind, forms, entry, fnames=None):
    """fields whose TYPES are tuples / arrays / Option / Vec / Box of the recording type: clone / clone_from of the derived impl
    must be exactly one call of the field type's own clone / clone_from per field, in order (whatever that type then does)"""
    tys = [FIELD_FORMS[k][0] for k in forms]
    def val(k, tag):
        return FIELD_FORMS[k][1] % (tag, tag) if FIELD_FORMS[k][1].count("%d") == 2 else FIELD_FORMS[k][1] % tag
    n = len(forms)
    if kind == "struct":
        decl = "pub struct T(%s);" % ", ".join("pub " + t for t in tys)
        mk = lambda tag: "T(%s)" % ", ".join(val(k, tag + j) for j, k in enumerate(forms))
        flds = lambda x: ["%s.%d" % (x, j) for j in range(n)]
        bind = ""
    else:
        N = list(fnames) if fnames else ["f%d" % j for j in range(n)]
        decl = "pub enum T { U, V { %s } }" % ", ".join("%s: %s" % (N[j], t) for j, t in enumerate(tys))
        mk = lambda tag: "T::V { %s }" % ", ".join("%s: %s" % (N[j], val(k, tag + j)) for j, k in enumerate(forms))
        flds = None
    lines = ["pub mod m%d {" % idx, "    use ::dx_support::CF;", "    %s %s" % (derive_head(["Clone"], entry), decl),
             "    pub fn run() -> String {"]
    # derived clone_from vs the fields' own clone_from, one after the other
    lines.append("        let b: T = %s;" % mk(40))
    lines.append("        let mut a1: T = %s; let mut a2: T = %s;" % (mk(10), mk(10)))
    lines.append("        ::dx_support::take_log(); <T as ::core::clone::Clone>::clone_from(&mut a1, &b); let got = ::dx_support::take_log();")
    if kind == "struct":
        for j, t in enumerate(tys):
            lines.append("        <%s as ::core::clone::Clone>::clone_from(&mut a2.%d, &b.%d);" % (t, j, j))
    else:
        pat = ", ".join("%s: f%d" % (N[j], j) for j in range(n))
        lines.append("        if let (T::V { %s }, T::V { %s }) = (&mut a2, &b) {" % (pat, ", ".join("%s: g%d" % (N[j], j) for j in range(n))))
        for j, t in enumerate(tys):
            lines.append("            <%s as ::core::clone::Clone>::clone_from(f%d, g%d);" % (t, j, j))
        lines.append("        }")
    lines.append("        let want = ::dx_support::take_log();")
    lines.append("        let from_log_equal = got == want; let from_state_equal = format!(\"{:?}\", dbg(&a1)) == format!(\"{:?}\", dbg(&a2));")
    # derived clone vs the fields' own clone
    lines.append("        ::dx_support::take_log(); let c1 = <T as ::core::clone::Clone>::clone(&b); let got = ::dx_support::take_log();")
    if kind == "struct":
        lines.append("        let c2 = T(%s);" % ", ".join("<%s as ::core::clone::Clone>::clone(&b.%d)" % (t, j) for j, t in enumerate(tys)))
    else:
        lines.append("        let c2 = if let T::V { %s } = &b { T::V { %s } } else { T::U };" % (pat, ", ".join("%s: <%s as ::core::clone::Clone>::clone(f%d)" % (N[j], t, j) for j, t in enumerate(tys))))
    lines.append("        let want = ::dx_support::take_log();")
    lines.append("        let clone_log_equal = got == want; let clone_state_equal = format!(\"{:?}\", dbg(&c1)) == format!(\"{:?}\", dbg(&c2));")
    lines.append("        format!(\"{{\\\"id\\\":%d,\\\"ev\\\":\\\"clone_fieldwise\\\",\\\"from_log_equal\\\":{},\\\"from_state_equal\\\":{},\\\"clone_log_equal\\\":{},\\\"clone_state_equal\\\":{}}}\\n\", from_log_equal, from_state_equal, clone_log_equal, clone_state_equal)" % idx)
    lines.append("    }")
    if kind == "struct":
        lines.append("    fn dbg(t: &T) -> String { format!(\"%s\", %s) }" % (" ".join("{:?}" for _ in tys), ", ".join("t.%d" % j for j in range(n))))
    else:
        lines.append("    fn dbg(t: &T) -> String { match t { T::U => String::new(), T::V { %s } => format!(\"%s\", %s) } }" % (pat, " ".join("{:?}" for _ in tys), ", ".join("f%d" % j for j in range(n))))
    lines.append("}")
    return "\n".join(lines)


def clone_history_module(idx, shape, entry, named_mask, script):
    """same type, but a scripted history: list of ("set", var, value-index) / ("clone", d, s) / ("clone_from", d, s)"""
    base = clone_module(idx, shape, entry, named_mask)
    cut = base.index("    pub fn run() -> String {")
    head = base[:cut]
    vals = shape_values(shape)
    body = ["    pub fn run() -> String {", "        let mut out = String::new();",
            "        let mut a = mk(VALS[0].0, VALS[0].1); let mut b = mk(VALS[0].0, VALS[0].1);"]
    for step in script:
        if step[0] == "set":
            body.append("        %s = mk(VALS[%d].0, VALS[%d].1);" % (step[1], step[2], step[2]))
            body.append("        out.push_str(&format!(\"{{\\\"id\\\":%d,\\\"act\\\":\\\"reset\\\",\\\"post\\\":{{\\\"a\\\":{},\\\"b\\\":{}}}}}\\n\", show(&a), show(&b)));" % idx)
        else:
            d, s = step[1], step[2]
            call = ("%s = ::core::clone::Clone::clone(&%s);" % (d, s)) if step[0] == "clone" else ("::core::clone::Clone::clone_from(&mut %s, &%s);" % (d, s))
            body.append("        ::dx_support::take_log(); %s let lg = ::dx_support::take_log();" % call)
            body.append("        out.push_str(&format!(\"{{\\\"id\\\":%d,\\\"act\\\":\\\"%s\\\",\\\"d\\\":\\\"%s\\\",\\\"s\\\":\\\"%s\\\",\\\"log\\\":{},\\\"post\\\":{{\\\"a\\\":{},\\\"b\\\":{}}}}}\\n\", ::dx_support::json_strs(&lg), show(&a), show(&b)));" % (idx, step[0], d, s))
    body += ["        out", "    }", "}"]
    return head + "\n".join(body)


# ------------------------------------------------------------------------------------------------
# C08
# ------------------------------------------------------------------------------------------------
def ops_module(idx, n, kind, entry, ops=None, generic=False, bounds=None, selfbound=None, leaf="Tm", repr_=None, names=None, with_default=False, shadow_core=False):
    """struct with n Tm fields deriving all 22 operator traits; driver exercises every form.
    leaf "Tc": the Copy, alignment-1 guise of the term algebra (needed for #[repr(packed)])"""
    ops = ops or BINOPS
    traits = list(ops) + [o + "Assign" for o in ops] + ["Neg", "Not"]
    ty = "X" if generic else "::dx_support::" + leaf
    g = "<X>" if generic else ""
    wh = ""
    only = ""
    if generic and selfbound:
        # `Only<U>` holds for U = T<Tm> alone: an impl in which the struct's `Self` came to mean something else does not apply
        only = ("    pub trait Only<U: ?::core::marker::Sized> {}\n    impl Only<T<::dx_support::Tm>> for ::dx_support::Tm {}\n"
                # `Self` NESTED in the arguments of other types: these hold for the user's own Self alone as well
                "    impl Only<::core::option::Option<T<::dx_support::Tm>>> for ::dx_support::Tm {} impl Only<::std::vec::Vec<T<::dx_support::Tm>>> for ::dx_support::Tm {}\n"
                "    impl Only<(T<::dx_support::Tm>, u8)> for ::dx_support::Tm {} impl Only<[T<::dx_support::Tm>; 1]> for ::dx_support::Tm {} impl Only<::std::boxed::Box<T<::dx_support::Tm>>> for ::dx_support::Tm {}\n"
                "    pub trait OnlyN {} impl OnlyN for ::core::option::Option<T<::dx_support::Tm>> {} impl OnlyN for ::std::vec::Vec<(T<::dx_support::Tm>, u8)> {}")
    if generic and selfbound == "inline":
        g = "<X: ::dx_support::Rel<Self> + Only<Self>>"
    elif generic and selfbound == "where":
        wh = " where X: ::dx_support::Rel<Self> + Only<Self>"
    elif generic and selfbound == "nested_inline":
        g = "<X: ::dx_support::Rel<::core::option::Option<Self>> + Only<::std::vec::Vec<Self>> + Only<(Self, u8)>>"
    elif generic and selfbound == "nested_where":
        wh = " where X: Only<::std::boxed::Box<Self>> + Only<[Self; 1]>, ::core::option::Option<Self>: OnlyN, ::std::vec::Vec<(Self, u8)>: OnlyN + ::dx_support::Rel<::core::option::Option<Self>>"
    TT = ("T<::dx_support::%s>" % leaf) if generic else "T"
    mkleaf = "tm" if leaf == "Tm" else "::dx_support::tc"
    # field names: declaration order need not be alphabetical (names = "rev": f2, f1, f0; "mixed": zb, a, Zc ..)
    fname = [("f%d" % j) for j in range(n)]
    if names == "rev":
        fname = [("f%d" % (n - 1 - j)) for j in range(n)]
    elif names == "mixed":
        fname = ["zb", "a", "m1", "b0", "y", "c"][:n]
    # Default co-derived, the first field with an explicit default value: the operators must not look at it
    dattr = ("#[default(::dx_support::%s(\"dflt\"))] " % ("tm" if leaf == "Tm" else "tc")) if with_default else ""
    if kind == "unit":
        decl = "pub struct T%s;" % g if not generic else None
    elif kind == "named":
        decl = "pub struct T%s%s { %s }" % (g, wh, ", ".join("%s%s: %s" % (dattr if j == 0 else "", fname[j], ty) for j in range(n)))
    else:
        decl = "pub struct T%s(%s)%s;" % (g, ", ".join((dattr if j == 0 else "") + ty for j in range(n)), wh)
    dtraits = list(traits)
    if with_default:
        dtraits = ["Default"] + dtraits
    if bounds == "shared_empty":
        dtraits = dtraits + ["bound()"]
    elif bounds == "this_dd":
        dtraits = [t + "(bound(..))" for t in dtraits]
    elif bounds == "this_empty":
        dtraits = [t + "(bound())" for t in dtraits]
    elif bounds == "field_empty" and n > 0:
        fa = "#[derive_ex(%s, bound())] " % ", ".join(traits)
        if kind == "named":
            decl = "pub struct T%s { %s }" % (g, ", ".join(("%sf%d: %s" % (fa if j == n - 1 else "", j, ty)) for j in range(n)))
        else:
            decl = "pub struct T%s(%s);" % (g, ", ".join(((fa if j == n - 1 else "") + ty) for j in range(n)))
    if repr_:
        decl = "#[repr(%s)] %s" % (repr_, decl)
    lines = ["pub mod m%d {" % idx, "    #[allow(unused_imports)] use ::dx_support::{tm, Tm};", only,
             "    #[allow(dead_code)] pub mod core { pub mod ops {} pub mod clone {} } #[allow(dead_code)] pub mod std {}" if shadow_core else "",
             "    %s %s" % (derive_head(dtraits, entry), decl)]

    def ctor(c):
        args = ["%s(\"%s%d\")" % (mkleaf, c, j) for j in range(n)]
        if kind == "unit":
            return "T"
        if kind == "named":
            return "T { %s }" % ", ".join("%s: %s" % (fname[j], a) for j, a in enumerate(args))
        return "T(%s)" % ", ".join(args)
    acc = ["::std::string::String::from(t.%s.0.as_str())" % fname[j] for j in range(n)] if kind == "named" else ["::std::string::String::from(t.%d.0.as_str())" % j for j in range(n)]
    if leaf == "Tc":
        acc = ["::dx_support::tc_str({ t.%s })" % (fname[j] if kind == "named" else str(j)) for j in range(n)]
    RESET = "::dx_support::tc_reset(); " if leaf == "Tc" else ""
    lines.append("    fn show(t: &%s) -> String { let v: Vec<String> = vec![%s]; ::dx_support::json_strs(&v) }" % (TT, ", ".join(acc)))
    lines.append("    pub fn run() -> String {\n        let mut out = String::new();")

    def emit(ev, fields):
        fmt = ",".join("\\\"%s\\\":%s" % (k, "{}" if v is not None else "null") for k, v in fields)
        args = ", ".join(v for k, v in fields if v is not None)
        lines.append("        out.push_str(&format!(\"{{\\\"id\\\":%d,\\\"ev\\\":\\\"%s\\\",%s}}\\n\"%s));" % (idx, ev, fmt, (", " + args) if args else ""))
    for op in ops:
        s = SYM[op]
        for lref in (False, True):
            for rref in (False, True):
                lines.append("        { %slet a: %s = %s; let b: %s = %s; ::dx_support::take_log();" % (RESET, TT, ctor("a"), TT, ctor("b")))
                lines.append("          let r = %sa %s %sb; let lg = ::dx_support::take_log();" % ("&" if lref else "", s, "&" if rref else ""))
                emit("binop", [("op", "\"\\\"%s\\\"\"" % op), ("lref", "\"%s\"" % str(lref).lower()), ("rref", "\"%s\"" % str(rref).lower()),
                               ("result", "show(&r)"), ("log", "::dx_support::json_strs(&lg)"),
                               ("a_after", "show(&a)" if lref else "\"[]\""), ("b_after", "show(&b)" if rref else "\"[]\"")])
                lines.append("        }")
        for rref in (False, True):
            lines.append("        { %slet mut a: %s = %s; let b: %s = %s; ::dx_support::take_log();" % (RESET, TT, ctor("a"), TT, ctor("b")))
            lines.append("          a %s= %sb; let lg = ::dx_support::take_log();" % (s, "&" if rref else ""))
            emit("assignop", [("op", "\"\\\"%s\\\"\"" % op), ("rref", "\"%s\"" % str(rref).lower()), ("a_after", "show(&a)"),
                              ("log", "::dx_support::json_strs(&lg)"), ("b_after", "show(&b)" if rref else "\"[]\"")])
            lines.append("        }")
    for op in ("Neg", "Not"):
        for lref in (False, True):
            lines.append("        { %slet a: %s = %s; ::dx_support::take_log();" % (RESET, TT, ctor("a")))
            lines.append("          let r = %s%sa; let lg = ::dx_support::take_log();" % (SYM[op], "&" if lref else ""))
            emit("unop", [("op", "\"\\\"%s\\\"\"" % op), ("lref", "\"%s\"" % str(lref).lower()), ("result", "show(&r)"),
                          ("log", "::dx_support::json_strs(&lg)"), ("a_after", "show(&a)" if lref else "\"[]\"")])
            lines.append("        }")
    lines.append("        out\n    }\n}")
    return "\n".join(lines)


# ------------------------------------------------------------------------------------------------
# C09
# ------------------------------------------------------------------------------------------------
def ty_of(side, rhs_self):
    return "LT" if (side == "l" or rhs_self) else "RT"


LOCAL_OPERANDS = """    pub struct LT(pub String);
    impl ::core::clone::Clone for LT { fn clone(&self) -> Self { ::dx_support::log(format!("cloneL:{}", self.0)); LT(self.0.clone()) } }
    pub struct RT(pub String);
    impl ::core::clone::Clone for RT { fn clone(&self) -> Self { ::dx_support::log(format!("cloneR:{}", self.0)); RT(self.0.clone()) } }
    #[allow(dead_code)] impl LT { pub fn clone(&self) -> Self { ::dx_support::log("decoy:clone".to_string()); LT("decoy".to_string()) } }
    #[allow(dead_code)] impl RT { pub fn clone(&self) -> Self { ::dx_support::log("decoy:clone".to_string()); RT("decoy".to_string()) } }"""


NOCLONE_RHS_OPERANDS = """    pub struct LT(pub String);
    impl ::core::clone::Clone for LT { fn clone(&self) -> Self { ::dx_support::log(format!("cloneL:{}", self.0)); LT(self.0.clone()) } }
    pub struct RT(pub String);
    #[allow(dead_code)] impl LT { pub fn clone(&self) -> Self { ::dx_support::log("decoy:clone".to_string()); LT("decoy".to_string()) } }"""


def refty(t, isref):
    return ("&" + t) if isref else t


GENERIC_OPERANDS = """    pub struct LT<G>(pub String, pub ::core::marker::PhantomData<G>);
    impl<G> ::core::clone::Clone for LT<G> { fn clone(&self) -> Self { ::dx_support::log(format!("cloneL:{}", self.0)); LT(self.0.clone(), ::core::marker::PhantomData) } }
    pub struct RT<G>(pub String, pub ::core::marker::PhantomData<G>);
    impl<G> ::core::clone::Clone for RT<G> { fn clone(&self) -> Self { ::dx_support::log(format!("cloneR:{}", self.0)); RT(self.0.clone(), ::core::marker::PhantomData) } }
    #[allow(dead_code)] impl<G> LT<G> { pub fn clone(&self) -> Self { ::dx_support::log("decoy:clone".to_string()); LT("decoy".to_string(), ::core::marker::PhantomData) } }
    #[allow(dead_code)] impl<G> RT<G> { pub fn clone(&self) -> Self { ::dx_support::log("decoy:clone".to_string()); RT("decoy".to_string(), ::core::marker::PhantomData) } }"""


def implop_module(idx, op, base, rhs_self, want_bin, want_assign, base_is_assign=False, generic=None, spell_self=False, assign_first=False, proj=False, stacked=False, rhs_noclone=False):
    """user impl of `op` in base form (bl, br) carrying #[derive_ex(..)]; returns (source, request-for-inproc, descriptor)"""
    bl, br = base
    L, R = ty_of("l", rhs_self), ty_of("r", rhs_self)
    ig, iw, mk2 = "", "", ""
    if generic:
        L, R = L + "<G>", R + "<G>"
        mk2 = ", ::core::marker::PhantomData"
        # `Only<U>` holds for U = the user's own Self type and nothing else: a generated impl in which `Self` came to mean
        # another type (or was not carried over) stops applying at the call sites of the driver
        if generic == "where":
            ig, iw = "<G>", " where G: ::core::marker::Copy + Only<Self>, Self: ::core::marker::Sized"
        elif generic == "group":
            # `Self` only inside DELIMITED GROUPS (tuple, array, parenthesised, fn-pointer arguments) of the where-clause
            ig, iw = "<G>", " where G: ::core::marker::Copy, (Self, u8): OnlyG, [Self; 1]: OnlyG, (Self): ::core::marker::Sized, fn(Self) -> [Self; 2]: ::core::marker::Copy"
        elif generic == "nested":
            # `Self` only NESTED in the arguments of other types
            ig, iw = "<G>", (" where G: ::core::marker::Copy + Only<::core::option::Option<Self>>, ::std::vec::Vec<Self>: ::core::marker::Sized, "
                             "(Self, u8): ::core::marker::Sized + ::dx_support::Rel<[Self; 1]>")
        else:
            ig = "<G: ::core::marker::Copy + ::dx_support::Rel<Self> + Only<Self>>"
    fn = FN[op]
    req = ([op] if want_bin else []) + ([op + "Assign"] if want_assign else [])
    if assign_first:
        req.reverse()
    attr = ", ".join(req)
    rhs_txt = refty(R, br == "r")
    if spell_self:
        # the right operand written with `Self` (only possible when it is the self type itself, or a reference to it)
        assert rhs_self
        self_is_ref = (bl == "r") and not base_is_assign
        if self_is_ref and br == "r":
            rhs_txt = "Self"
        elif not self_is_ref:
            rhs_txt = "&Self" if br == "r" else "Self"
        else:
            raise ValueError("Rhs = T cannot be spelled through Self = &T")
    if base_is_assign:
        impl = ("impl%s ::core::ops::%sAssign<%s> for %s%s { fn %s_assign(&mut self, rhs: %s) { ::dx_support::log(\"call\".to_string()); "
                "self.0 = format!(\"assigned({},{})\", self.0, rhs.0); } }" % (ig, op, rhs_txt, L, iw, fn, rhs_txt))
    else:
        ctor = L.split("<")[0]
        # `Self` only inside a projection `<Self as Pj>::O` (Output and where-clause): it must keep meaning the user's self type
        out_txt = "<Self as Pj>::O" if proj else L
        iw2 = (iw + (" where " if not iw else ", ") + "<Self as Pj>::O: ::core::marker::Sized") if proj else iw
        impl = ("impl%s ::core::ops::%s<%s> for %s%s { type Output = %s; fn %s(self, rhs: %s) -> %s { ::dx_support::log(\"call\".to_string()); "
                "%s(format!(\"base({},{})\", self.0, rhs.0)%s) } }" % (ig, op, rhs_txt, refty(L, bl == "r"), iw2, out_txt, fn, rhs_txt, L, ctor, mk2))
    only = ("    pub trait Only<U: ?::core::marker::Sized> {}\n    impl<%sG> Only<%sLT<G>> for G {}" % (("'x, ", "&'x ") if (bl == "r" and not base_is_assign) else ("", ""))) if generic else ""
    if generic == "group":
        only = "    pub trait OnlyG {}\n    impl<G> OnlyG for (LT<G>, u8) {} impl<G> OnlyG for [LT<G>; 1] {}"
    if generic == "nested":
        only = "    pub trait Only<U: ?::core::marker::Sized> {}\n    impl<G> Only<::core::option::Option<LT<G>>> for G {}"
    pj = ("    pub trait Pj { type O; }\n    impl%s Pj for %sLT { type O = LT; }" % (("<'x>", "&'x ") if bl == "r" else ("", ""))) if proj else ""
    operands = GENERIC_OPERANDS if generic else LOCAL_OPERANDS
    if rhs_noclone:
        # a right operand that is never needed by value need not be Clone at all
        assert not generic and not rhs_self and br == "r"
        operands = NOCLONE_RHS_OPERANDS
    head = "#[::derive_ex::derive_ex(%s)]" % attr
    if stacked and len(req) == 2:
        # one list per trait, stacked on the impl; the later one written the usual way (macro imported by name)
        head = "#[allow(unused_imports)] use ::derive_ex::derive_ex;\n    #[::derive_ex::derive_ex(%s)] #[derive_ex(%s)]" % (req[0], req[1])
    lines = ["pub mod m%d {" % idx, operands, only, pj, "    %s %s" % (head, impl)]
    lines.append("    fn counts(lg: &[String]) -> (usize, usize, usize) { (lg.iter().filter(|s| *s == \"call\").count(), "
                 "lg.iter().filter(|s| s.starts_with(\"clone\") && s.ends_with(\":L\")).count(), lg.iter().filter(|s| s.starts_with(\"clone\") && s.ends_with(\":R\")).count()) }")
    lines.append("    pub fn run() -> String {\n        let mut out = String::new();")
    s = SYM[op]
    mkl = "%s(\"L\".to_string()%s)" % (L.replace("<G>", "::<u8>"), mk2)
    mkr = "%s(\"R\".to_string()%s)" % (R.replace("<G>", "::<u8>"), mk2)

    def emit(ev, form, result_expr, unchanged_expr, key):
        lines.append("          let (c, lc, rc) = counts(&lg);")
        lines.append("          out.push_str(&format!(\"{{\\\"id\\\":%d,\\\"ev\\\":\\\"%s\\\",\\\"form\\\":{{\\\"l\\\":\\\"%s\\\",\\\"r\\\":\\\"%s\\\"}},\\\"calls\\\":{},\\\"lclones\\\":{},\\\"rclones\\\":{},\\\"%s\\\":\\\"{}\\\",\\\"operands_unchanged\\\":{}}}\\n\", c, lc, rc, %s, %s));"
                     % (idx, ev, form[0], form[1], key, result_expr, unchanged_expr))
    if base_is_assign:
        if want_bin:
            lines.append("        { let l = %s; let r = %s; ::dx_support::take_log(); let o = l %s %sr; let lg = ::dx_support::take_log();" % (mkl, mkr, s, "&" if br == "r" else ""))
            emit("implbin_from_assign", ("v", br), "o.0", "true", "result")
            lines.append("        }")
    else:
        if want_bin:
            for fl in ("v", "r"):
                for fr in ("v", "r"):
                    if (fl, fr) == (bl, br):
                        continue
                    lines.append("        { let l = %s; let r = %s; ::dx_support::take_log(); let o = %sl %s %sr; let lg = ::dx_support::take_log();"
                                 % (mkl, mkr, "&" if fl == "r" else "", s, "&" if fr == "r" else ""))
                    unch = " && ".join((["l.0 == \"L\""] if fl == "r" else []) + (["r.0 == \"R\""] if fr == "r" else [])) or "true"
                    emit("implbin", (fl, fr), "o.0", unch, "result")
                    lines.append("        }")
        if want_assign:
            # (stacked lists are separate requests: `op=` then exists for the user's own Rhs form only)
            forms = ("v", "r") if (want_bin and not stacked) else (br,)
            for fr in forms:
                lines.append("        { let mut l = %s; let r = %s; ::dx_support::take_log(); l %s= %sr; let lg = ::dx_support::take_log();"
                             % (mkl, mkr, s, "&" if fr == "r" else ""))
                unch = "r.0 == \"R\"" if fr == "r" else "true"
                emit("implassign", ("m", fr), "l.0", unch, "post")
                lines.append("        }")
    lines.append("        out\n    }\n}")
    desc = {"op": op, "base": {"l": bl, "r": br}, "rhs_self": rhs_self, "want_bin": want_bin, "want_assign": want_assign,
            "base_is_assign": base_is_assign, "generic": generic or ""}
    return "\n".join(lines), {"attr": attr, "item": impl}, desc


# ------------------------------------------------------------------------------------------------
# C10 Debug
# ------------------------------------------------------------------------------------------------
FLAGS = ["{:?}", "{:#?}", "{:5?}", "{:<8?}", "{:>8?}", "{:^8?}", "{:*^10?}", "{:+?}", "{:.1?}", "{:x?}", "{:X?}", "{:#x?}", "{:08.2?}",
         "{:#10?}", "{:+.3?}", "{:#<6?}", "{:02?}"]
LEAF_TYPES = [("i32", ["7i32", "-3i32"]), ("f64", ["1.5f64", "-0.25f64"]), ("&'static str", ["\"hi\"", "\"a b\""]), ("::core::option::Option<i32>", ["::core::option::Option::Some(4i32)", "::core::option::Option::<i32>::None"]),
              ("Inner", ["Inner { p: 1, q: -2 }"]), ("(u8, bool)", ["(3u8, true)"]), ("::std::vec::Vec<u8>", ["::std::vec![1u8, 2u8]", "::std::vec::Vec::<u8>::new()"]),
              ("::dx_support::DF", ["::dx_support::DF(7)", "::dx_support::DF(250)"])]
INNER = "#[derive(Debug, Clone)] pub struct Inner { pub p: i32, pub q: i32 }"


RUST_KEYWORDS = {"match", "type", "fn", "loop", "if", "else", "while", "for", "in", "let", "mut", "ref", "move", "return", "impl", "trait", "struct", "enum",
                 "where", "as", "break", "continue", "const", "static", "unsafe", "use", "mod", "pub", "dyn", "async", "await", "true", "false", "extern", "box", "try", "yield", "macro"}


def sn(name):
    """a descriptor name as it has to be written in source (keywords as raw identifiers)"""
    return ("r#" + name) if name in RUST_KEYWORDS else name


def debug_module(idx, desc, entry, rnd, bounds=None):
    """desc: {"kind": "struct"|"enum", "variants": [{"name", "shape", "fields": [{"name", "ty": index into LEAF_TYPES, "dbg"}]}], "generic": bool}
    The twin (std derive, ignored fields deleted, same names) lives in a sub-module."""
    kind = desc["kind"]
    gen = desc.get("generic", False)
    lines = ["pub mod m%d {" % idx, "    " + INNER]

    def fdecl(v, twin):
        fs = []
        for f in v["fields"]:
            if twin and f["dbg"] in ("ignore", "both"):
                continue
            dargs = [] if f["dbg"] == "none" else (["transparent", "ignore"] if f["dbg"] == "both" else [f["dbg"]])
            if bounds == "field_helper" and not twin:
                dargs.append("bound()")
            at = "" if (twin or not dargs) else "#[debug(%s)] " % ", ".join(dargs)
            ty = LEAF_TYPES[f["ty"]][0] if not (gen and f.get("gen")) else "G"
            if twin and ty == "Inner":
                ty = "super::Inner"
            vis = "pub " if kind == "struct" else ""
            fs.append(at + vis + (("%s: " % sn(f["name"])) if v["shape"] == "named" else "") + ty)
        if v["shape"] == "named":
            return "{ " + ", ".join(fs) + " }"
        if v["shape"] == "tuple":
            return "(" + ", ".join(fs) + ")"
        return ""
    g = ("<G: ?::core::marker::Sized>" if desc.get("maybe_unsized") else "<G>") if gen else ""

    def item(twin):
        head = "#[derive(Debug)]" if twin else derive_head({None: ["Debug"], "field_helper": ["Debug"], "this_empty": ["Debug(bound())"],
                                                             "shared_empty": ["Debug", "bound()"], "this_dd": ["Debug(bound(..))"]}[bounds], entry)
        if kind == "struct":
            v = desc["variants"][0]
            body = fdecl(v, twin)
            # a named / tuple struct whose every field was ignored keeps its braces / parens in the twin
            return "%s pub struct %s%s %s%s" % (head, sn(v["name"]), g, body, "" if v["shape"] == "named" else ";")
        vs = ", ".join("%s %s" % (sn(v["name"]), fdecl(v, twin)) for v in desc["variants"])
        return "%s pub enum E%s { %s }" % (head, g, vs)
    lines.append("    " + item(False))
    has_transparent = any(f["dbg"] in ("transparent", "both") for v in desc["variants"] for f in v["fields"])
    lines.append("    pub mod twin { " + item(True) + " }")
    lines.append("    fn lines(s: &str) -> String { let v: Vec<String> = s.split('\\n').map(|x| x.to_string()).collect(); ::dx_support::json_strs(&v) }")
    lines.append("    pub fn run() -> String {\n        let mut out = String::new();")
    tyname = lambda v: (sn(v["name"]) if kind == "struct" else "E::" + sn(v["name"]))
    inst = "::<i32>" if gen else ""
    for vi, v in enumerate(desc["variants"]):
        nvals = max([len(LEAF_TYPES[f["ty"]][1]) for f in v["fields"]] + [1])
        for k in range(min(nvals, 2)):
            vals = [LEAF_TYPES[f["ty"]][1][k % len(LEAF_TYPES[f["ty"]][1])] for f in v["fields"]]

            def ctor(path, twin):
                fs = [(f, x) for f, x in zip(v["fields"], vals) if not (twin and f["dbg"] in ("ignore", "both"))]
                if v["shape"] == "named":
                    return "%s { %s }" % (path, ", ".join("%s: %s" % (sn(f["name"]), x) for f, x in fs))
                if v["shape"] == "tuple":
                    return "%s(%s)" % (path, ", ".join(x for f, x in fs))
                return path
            lines.append("        {")
            lines.append("            let x = %s; let t = %s;" % (ctor(tyname(v), False), ctor("twin::" + tyname(v), True)))
            tf = [(f, x) for f, x in zip(v["fields"], vals) if f["dbg"] in ("transparent", "both")]
            cmp_target = None
            if len(tf) == 1:
                lines.append("            let tr: %s = %s;" % (LEAF_TYPES[tf[0][0]["ty"]][0], tf[0][1]))
                cmp_target = "tr"
            else:
                cmp_target = "t"
            lines.append("            let mut twin_equal = true; let mut diff = String::new();")
            for fl in FLAGS:
                lines.append("            { let a = format!(\"%s\", x); let b = format!(\"%s\", %s); if a != b { twin_equal = false; if diff.is_empty() { diff = format!(\"%s: {:?} vs {:?}\", a, b); } } }"
                             % (fl, fl, cmp_target, fl.replace("{", "{{").replace("}", "}}")))
            # leaves
            leafs = []
            for f, x in zip(v["fields"], vals):
                leafs.append("::dx_support::dbg_field(\"%s\", \"%s\", &({ let v: %s = %s; v }))" % (f["name"] if v["shape"] == "named" else "", f["dbg"], LEAF_TYPES[f["ty"]][0], x))
            lines.append("            let fields: Vec<String> = vec![%s];" % ", ".join(leafs))
            lines.append("            out.push_str(&format!(\"{{\\\"id\\\":%d,\\\"ev\\\":\\\"debug\\\",\\\"name\\\":\\\"%s\\\",\\\"named\\\":%s,\\\"fields\\\":[{}],\\\"plain\\\":\\\"{}\\\",\\\"alt\\\":{},\\\"twin_equal\\\":{},\\\"diff\\\":\\\"{}\\\",\\\"rejected\\\":false}}\\n\", "
                         "fields.join(\",\"), ::dx_support::json_str(&format!(\"{:?}\", x)), lines(&format!(\"{:#?}\", x)), twin_equal, ::dx_support::json_str(&diff)));"
                         % (idx, v["name"], "true" if v["shape"] == "named" else "false"))
            lines.append("        }")
    lines.append("        out\n    }\n}")
    return "\n".join(lines)


# ------------------------------------------------------------------------------------------------
# C11 Default
# ------------------------------------------------------------------------------------------------
DV_SRC = {"none": None, "str": "\"abc\"", "empty_str": "\"\"", "path": "::dx_support::SRC7", "assoc_path": "::dx_support::Holder::SRC3", "into_path": "::dx_support::SRCI8",
          "qself_path": "<::dx_support::Holder as ::dx_support::HasSrc>::SRC2", "turbofish_path": "::dx_support::HolderG::<u8>::SRC1",
          "own_assoc_path": "Pr::RAW4",
          "call": "::dx_support::mk(5)", "block": "{ ::dx_support::mk(6) }", "method": "::dx_support::mk(4).same()", "int": "5", "neg": "-3",
          "bytes": "b\"ab\""}
DV_TY = {"int": "u8", "neg": "i8", "bytes": "&'static [u8]"}


def default_module(idx, P, entry, bounds=None):
    """P: {"kind", "tv": "none"|"call"|"path", "variants": [{"shape", "dmark", "vv": "none"|"call", "fields": [{"dv", "underscore": bool}]}]}
    every field has type Pr (provenance recording)"""
    lines = ["pub mod m%d {" % idx, "    use ::dx_support::Pr;"]
    head = derive_head({None: ["Default"], "this_empty": ["Default(bound())"], "shared_empty": ["Default", "bound()"], "this_dd": ["Default(bound(..))"],
                        "field": ["Default"], "type_helper": ["Default"]}[bounds], entry)
    tl = ""
    tb = ", bound()" if bounds == "type_helper" else ""
    if P["tv"] == "call":
        tl = "#[default(Self::special()%s)] " % tb
    elif P["tv"] == "path":
        tl = "#[default(SPECIAL%s)] " % tb
    elif tb:
        tl = "#[default(_%s)] " % tb

    def fsrc(v):
        fs = []
        for j, f in enumerate(v["fields"]):
            e = DV_SRC[f["dv"]]
            at = ""
            fb = ", bound()" if bounds == "field" else ""
            if e is not None:
                at = "#[default(%s%s)] " % (e, fb)
            elif f.get("underscore") or fb:
                at = "#[default(_%s)] " % fb
            fs.append(at + (("f%d: " % j) if v["shape"] == "named" else "") + DV_TY.get(f["dv"], "Pr"))
        if v["shape"] == "named":
            return "{ " + ", ".join(fs) + " }"
        if v["shape"] == "tuple":
            return "(" + ", ".join(fs) + ")"
        return ""
    if P["kind"] == "struct":
        v = P["variants"][0]
        lines.append("    %s %spub struct T %s%s" % (head, tl, fsrc(v), "" if v["shape"] == "named" else ";"))
    else:
        vs = []
        for vi, v in enumerate(P["variants"]):
            at = ""
            if v["vv"] != "none":
                at = "#[default(Self::special())] "
            elif v["dmark"]:
                at = "#[default] "
            vs.append("%sA%d %s" % (at, vi, fsrc(v)))
        lines.append("    %s %spub enum T { %s }" % (head, tl, ", ".join(vs)))
    # the type-level special value: variant 1 with marker provenance
    v0 = P["variants"][0]
    path0 = "T" if P["kind"] == "struct" else "T::A0"
    marks = [("Pr(\"type_level\".to_string())" if f["dv"] not in DV_TY else ("&[7u8, 7u8][..]" if f["dv"] == "bytes" else "77")) for f in v0["fields"]]
    if v0["shape"] == "named":
        sp = "%s { %s }" % (path0, ", ".join("f%d: %s" % (j, m) for j, m in enumerate(marks)))
    elif v0["shape"] == "tuple":
        sp = "%s(%s)" % (path0, ", ".join(marks))
    else:
        sp = path0
    lines.append("    impl T { fn special() -> T { %s } }" % sp)
    lines.append("    pub struct Sp; pub const SPECIAL: Sp = Sp; impl ::core::convert::From<Sp> for T { fn from(_: Sp) -> T { T::special() } }")
    lines.append("    fn show(t: &T) -> (usize, Vec<String>) { match t {")
    for vi, v in enumerate(P["variants"]):
        path = "T" if P["kind"] == "struct" else "T::A%d" % vi
        n = len(v["fields"])
        if v["shape"] == "named":
            pat = "%s { %s }" % (path, ", ".join("f%d: g%d" % (j, j) for j in range(n)))
        elif v["shape"] == "tuple":
            pat = "%s(%s)" % (path, ", ".join("g%d" % j for j in range(n)))
        else:
            pat = path
        shows = [("::std::string::String::from(g%d.0.as_str())" % j) if f["dv"] not in DV_TY else
                 (("(if *g%d == &[7u8, 7u8][..] { \"type_level\".to_string() } else { format!(\"bytes:{:?}\", g%d) })" % (j, j)) if f["dv"] == "bytes" else
                  ("(if *g%d as i32 == 77 { \"type_level\".to_string() } else { format!(\"int:{}\", g%d) })" % (j, j)))
                 for j, f in enumerate(v["fields"])]
        lines.append("        %s => (%d, vec![%s])," % (pat, vi + 1, ", ".join(shows)))
    lines.append("    } }")
    lines.append("""    pub fn run() -> String {
        let d = <T as ::core::default::Default>::default();
        let (v, p) = show(&d);
        format!("{{\\"id\\":%d,\\"variant\\":{},\\"prov\\":{}}}\\n", v, ::dx_support::json_strs(&p))
    }
}""" % idx)
    return "\n".join(lines)


# ------------------------------------------------------------------------------------------------
# C18 Deref
# ------------------------------------------------------------------------------------------------
DEREF_SELF = """pub mod m%d {
    %s pub struct T<G>(::std::vec::Vec<(G, ::core::option::Option<::std::boxed::Box<Self>>)>);
    pub fn run() -> String {
        let mut x: T<u8> = T(::std::vec![(1u8, ::core::option::Option::None)]);
        let same_address = { let p: *const ::std::vec::Vec<(u8, ::core::option::Option<::std::boxed::Box<T<u8>>>)> = &x.0; let q: *const ::std::vec::Vec<(u8, ::core::option::Option<::std::boxed::Box<T<u8>>>)> = <T<u8> as ::core::ops::Deref>::deref(&x); ::core::ptr::eq(p, q) };
        let target_is_field_type = ::core::any::type_name::<<T<u8> as ::core::ops::Deref>::Target>() == ::core::any::type_name::<::std::vec::Vec<(u8, ::core::option::Option<::std::boxed::Box<T<u8>>>)>>();
        let mut_same_address = { let p: *const ::std::vec::Vec<(u8, ::core::option::Option<::std::boxed::Box<T<u8>>>)> = &x.0; let q: *const ::std::vec::Vec<(u8, ::core::option::Option<::std::boxed::Box<T<u8>>>)> = <T<u8> as ::core::ops::DerefMut>::deref_mut(&mut x); ::core::ptr::eq(p, q) };
        <T<u8> as ::core::ops::DerefMut>::deref_mut(&mut x).push((2u8, ::core::option::Option::None));
        let write_lands = x.0.len() == 2;
        format!("{{\\"id\\":%d,\\"same_address\\":{},\\"target_is_field_type\\":{},\\"mut_same_address\\":{},\\"write_lands\\":{}}}\n",
                same_address, target_is_field_type, mut_same_address, write_lands)
    }
}"""


def debug_macro_module(idx, frag, entry):
    """an enum and a struct written by a macro_rules! macro: names from one side, field types (as `ty` / `tt` fragments) from the other"""
    head = derive_head(["Debug"], entry)
    tf = "$t:ty" if frag == "ty" else "$t:tt"
    return """pub mod m%d {
    macro_rules! shapes { ($( $v:ident { $( $f:ident : %s ),* } ),*) => {
        %s pub enum E { $( $v { $( $f : $t ),* } ),* }
        %s pub struct S { $( $( pub $f : $t ),* ),* }
        pub mod twin { #[derive(Debug)] pub enum E { $( $v { $( $f : $t ),* } ),* } #[derive(Debug)] pub struct S { $( $( pub $f : $t ),* ),* } }
    } }
    shapes!(Circle { radius: i32, label: u8 }, Sq { side: f64 });
    pub fn run() -> String {
        let xs = (E::Circle { radius: 3, label: 7 }, E::Sq { side: 1.5 }, S { radius: 3, label: 7, side: 1.5 });
        let ts = (twin::E::Circle { radius: 3, label: 7 }, twin::E::Sq { side: 1.5 }, twin::S { radius: 3, label: 7, side: 1.5 });
        let mut eq = true;
        eq &= format!("{:?}", xs.0) == format!("{:?}", ts.0) && format!("{:#?}", xs.0) == format!("{:#?}", ts.0) && format!("{:+08.2?}", xs.1) == format!("{:+08.2?}", ts.1);
        eq &= format!("{:?}", xs.1) == format!("{:?}", ts.1) && format!("{:#?}", xs.2) == format!("{:#?}", ts.2) && format!("{:x?}", xs.2) == format!("{:x?}", ts.2);
        format!("{{\\"id\\":%d,\\"ev\\":\\"same_as_twin\\",\\"equal\\":{}}}\\n", eq)
    }
}""" % (idx, tf, head, head, idx)


def ops_macro_module(idx, frag, entry):
    """a struct of term-algebra fields written by a macro_rules! macro, the field type handed in as an `ident` / `tt` fragment"""
    head = derive_head(["Add", "Sub", "Neg", "AddAssign", "ShlAssign", "Not"], entry)
    pat = "$t:ident" if frag == "ident" else "$($t:tt)+"
    use = "$t" if frag == "ident" else "$($t)+"
    return """pub mod m%d {
    use ::dx_support::{tm, Tm};
    macro_rules! pair { ($n:ident, %s) => { %s pub struct $n(pub %s, pub %s); } }
    pair!(T, Tm);
    pub fn run() -> String {
        let mk = |c: &str| T(tm(&format!("{}0", c)), tm(&format!("{}1", c)));
        let mut eq = true;
        { let (a, b) = (mk("a"), mk("b")); let r = &a + &b; eq &= r.0 == &a.0 + &b.0 && r.1 == &a.1 + &b.1; }
        { let (a, b) = (mk("a"), mk("b")); let r = a - &b; eq &= r.0 == mk("a").0 - &mk("b").0 && r.1 == mk("a").1 - &mk("b").1; }
        { let r = -mk("a"); eq &= r.0 == -mk("a").0 && r.1 == -mk("a").1; let a2 = mk("a"); let r2 = !&a2; eq &= r2.0 == !&mk("a").0 && r2.1 == !&mk("a").1; }
        { let (mut a, b) = (mk("a"), mk("b")); let (mut a2, b2) = (mk("a"), mk("b")); a += &b; a2.0 += &b2.0; a2.1 += &b2.1; eq &= a.0 == a2.0 && a.1 == a2.1; }
        { let (mut a, b) = (mk("a"), mk("b")); let (mut a2, b2) = (mk("a"), mk("b")); a <<= b; a2.0 <<= b2.0; a2.1 <<= b2.1; eq &= a.0 == a2.0 && a.1 == a2.1; }
        format!("{{\\"id\\":%d,\\"ev\\":\\"same_as_twin\\",\\"equal\\":{}}}\\n", eq)
    }
}""" % (idx, pat, head, use, use, idx)


def deref_macro_module(idx, frag, entry):
    """single-field struct written by a macro_rules! macro; the field type arrives as an `ident` or `tt` fragment"""
    head = derive_head(["Deref", "DerefMut"], entry)
    pat = "$t:ident" if frag == "ident" else "$($t:tt)+"
    use = "$t" if frag == "ident" else "$($t)+"
    return """pub mod m%d {
    macro_rules! newtype { ($n:ident, %s) => { %s pub struct $n(pub %s); } }
    newtype!(T, u32);
    pub fn run() -> String {
        let mut x: T = T(3u32);
        let same_address = { let p: *const u32 = &x.0; let q: *const u32 = <T as ::core::ops::Deref>::deref(&x); ::core::ptr::eq(p, q) };
        let target_is_field_type = ::core::any::type_name::<<T as ::core::ops::Deref>::Target>() == ::core::any::type_name::<u32>();
        let mut_same_address = { let p: *const u32 = &x.0; let q: *const u32 = <T as ::core::ops::DerefMut>::deref_mut(&mut x); ::core::ptr::eq(p, q) };
        *<T as ::core::ops::DerefMut>::deref_mut(&mut x) = 8u32;
        let write_lands = x.0 == 8u32;
        format!("{{\\"id\\":%d,\\"same_address\\":{},\\"target_is_field_type\\":{},\\"mut_same_address\\":{},\\"write_lands\\":{}}}\\n",
                same_address, target_is_field_type, mut_same_address, write_lands)
    }
}""" % (idx, pat, head, use, idx)


def deref_self_module(idx, entry):
    return DEREF_SELF % (idx, derive_head(["Deref", "DerefMut"], entry), idx)


DEREF_TYPES = [("::std::string::String", "::std::string::String::from(\"s\")", "::std::string::String::from(\"w\")"),
               ("::std::boxed::Box<[u8]>", "::std::vec![1u8, 2].into_boxed_slice()", "::std::vec![9u8].into_boxed_slice()"),
               ("u8", "3u8", "8u8"), ("::std::vec::Vec<u32>", "::std::vec![1u32]", "::std::vec![5u32, 6]"), ("&'static str", "\"x\"", "\"yy\"")]


def deref_module(idx, named, ti, generic, entry, where=False, bounds=None, repr_=None):
    ty, v1, v2 = DEREF_TYPES[ti]
    dlist = {None: ["Deref", "DerefMut"], "this_empty": ["Deref(bound())", "DerefMut(bound())"], "shared_empty": ["Deref", "DerefMut", "bound()"],
             "this_dd": ["Deref(bound(..))", "DerefMut(bound(..))"], "this_pred": ["Deref(bound(G: ::core::clone::Clone))", "DerefMut(bound(G: ::core::clone::Clone, ..))"]}[bounds]
    fty = "G" if generic else ty
    g = ("<G: ::core::clone::Clone>" if where is False else "<G>") if generic else ""
    w = " where G: ::core::clone::Clone" if (generic and where) else ""
    if generic and where == "default":
        # a defaulted type parameter next to a defaulted const parameter (defaults belong to the item, not to the impl header)
        g, w = "<G = %s, const N: usize = 0>" % ty, " where G: ::core::clone::Clone, [u8; N]: ::core::marker::Sized"
    if named:
        fnm = named if isinstance(named, str) else "inner"          # (a field name given as a string: raw keywords, generator locals, ..)
        decl = "pub struct T%s%s { %s: %s }" % (g, w, fnm, fty)
        acc, mk = "x." + fnm, "T { " + fnm + ": %s }"
    else:
        decl = "pub struct T%s(%s)%s;" % (g, fty, w)
        acc, mk = "x.0", "T(%s)"
    TT = "T<%s>" % ty if generic else "T"
    if repr_:
        decl = "#[repr(%s)] %s" % (repr_, decl)
    return """pub mod m%d {
    %s %s
    pub fn run() -> String {
        let mut x: %s = %s;
        let same_address = {
            let p: *const %s = &%s; let q: *const %s = <%s as ::core::ops::Deref>::deref(&x); ::core::ptr::eq(p, q) };
        let target_is_field_type = ::core::any::type_name::<<%s as ::core::ops::Deref>::Target>() == ::core::any::type_name::<%s>();
        let mut_same_address = {
            let p: *const %s = &%s; let q: *const %s = <%s as ::core::ops::DerefMut>::deref_mut(&mut x); ::core::ptr::eq(p, q) };
        *<%s as ::core::ops::DerefMut>::deref_mut(&mut x) = %s;
        let write_lands = %s == %s;
        format!("{{\\"id\\":%d,\\"same_address\\":{},\\"target_is_field_type\\":{},\\"mut_same_address\\":{},\\"write_lands\\":{}}}\\n",
                same_address, target_is_field_type, mut_same_address, write_lands)
    }
}""" % (idx, derive_head(dlist, entry), decl, TT, mk % v1, ty, acc, ty, TT, TT, ty, ty, acc, ty, TT, TT, v2, acc, v2, idx)


# ------------------------------------------------------------------------------------------------
# C12: attribute-free shapes, derive_ex type vs std-derived twin
# ------------------------------------------------------------------------------------------------
C12_FIELD_TYPES = [("i32", ["-1", "0", "5"]), ("::std::string::String", ["::std::string::String::new()", "\"a\".to_string()"]), ("bool", ["false", "true"]),
                   ("::core::option::Option<u8>", ["None", "Some(2)"]), ("::std::vec::Vec<u8>", ["vec![]", "vec![1, 2]"]), ("(u8, char)", ["(1, 'x')", "(1, 'y')"]),
                   ("G", ["3u16", "4u16"]), ("[u8; N]", ["[0u8; 2]", "[7u8; 2]"]), ("&'l str", ["\"p\"", "\"q\""]), ("::core::marker::PhantomData<G>", ["::core::marker::PhantomData"]),
                   ("u8", ["0", "9"])]
ALL8 = ["Clone", "Debug", "Default", "PartialEq", "Eq", "PartialOrd", "Ord", "Hash"]


def c12_random(rnd, idx):
    """random attribute-free item; returns dict with the item text (without derive), constructors, generics"""
    kind = rnd.choice(["struct", "struct", "enum", "enum", "enum"])
    use_g = use_n = use_l = False
    raw = rnd.random() < 0.2
    fname = (lambda j: ["r#type", "r#match", "r#fn", "r#loop"][j % 4]) if raw else (lambda j: "f%d" % j)

    def mkfields(n):
        nonlocal use_g, use_n, use_l
        fs = []
        for j in range(n):
            ti = rnd.randrange(len(C12_FIELD_TYPES))
            ty = C12_FIELD_TYPES[ti][0]
            use_g |= "G" in ty.replace("::", "")
            use_n |= "N]" in ty
            use_l |= "'l" in ty
            fs.append(ti)
        return fs
    variants = []
    if kind == "struct":
        shape = rnd.choice(["unit", "tuple", "named"])
        variants.append({"name": "T", "shape": shape, "fields": mkfields(0 if shape == "unit" else rnd.choice([0, 1, 2, 3, 4]))})
    else:
        nv = rnd.choice([1, 2, 3, 4, 5])
        for vi in range(nv):
            shape = rnd.choice(["unit", "tuple", "named"])
            vname = ["A%d" % vi, "r#Self_%d" % vi][0] if not raw else ["r#A%d" % vi, "B%d" % vi][vi % 2]
            variants.append({"name": vname, "shape": shape, "fields": mkfields(0 if shape == "unit" else rnd.choice([0, 1, 2, 3]))})
        if not any(v["shape"] == "unit" for v in variants):
            variants.append({"name": "U9", "shape": "unit", "fields": []})
    gens, inst = [], []
    if use_l:
        gens.append("'l")
        inst.append("'static")
    if use_g:
        gens.append(rnd.choice(["G", "G: ::core::marker::Copy", "G = u16"]))
        inst.append("u16")
    if use_n:
        gens.append(rnd.choice(["const N: usize", "const N: usize = 2"]))
        inst.append("2")
    g = "<%s>" % ", ".join(gens) if gens else ""
    where = " where G: ::core::fmt::Debug" if (use_g and rnd.random() < 0.3) else ""
    attrs = rnd.choice(["", "", "#[repr(C)] ", "#[non_exhaustive] ", "#[allow(dead_code)] /// doc\n"]) if kind == "struct" else rnd.choice(["", "", "#[non_exhaustive] ", "#[repr(u8)] "])
    if kind == "enum" and "repr(u8)" in attrs and not all(True for v in variants):
        attrs = ""
    default_v = None
    if kind == "enum":
        units = [i for i, v in enumerate(variants) if v["shape"] == "unit"]
        default_v = rnd.choice(units)

    def body(v, vi):
        fs = []
        for j, ti in enumerate(v["fields"]):
            ty = C12_FIELD_TYPES[ti][0]
            fs.append(("pub %s: %s" % (fname(j), ty)) if v["shape"] == "named" else "pub " + ty if kind == "struct" else ty)
        if kind == "enum" and v["shape"] == "named":
            fs = [f.replace("pub ", "", 1) for f in fs]
        if v["shape"] == "named":
            return "{ " + ", ".join(fs) + " }"
        if v["shape"] == "tuple":
            return "(" + ", ".join(fs) + ")"
        return ""
    if kind == "struct":
        v = variants[0]
        b = body(v, 0)
        item = "%spub struct T%s %s%s%s" % (attrs, g, b if v["shape"] == "named" else b, where if v["shape"] == "named" else where, "" if v["shape"] == "named" else ";")
        if v["shape"] == "named":
            item = "%spub struct T%s%s %s" % (attrs, g, where, b)
        else:
            item = "%spub struct T%s%s%s;" % (attrs, g, b, where)
    else:
        vs = ", ".join(("#[default] " if vi == default_v else "") + v["name"] + " " + body(v, vi) for vi, v in enumerate(variants))
        item = "%spub enum T%s%s { %s }" % (attrs, g, where, vs)
    # values
    ctors = []
    for vi, v in enumerate(variants):
        lists = [C12_FIELD_TYPES[ti][1] for ti in v["fields"]]
        combos = list(itertools.product(*lists))
        rnd.shuffle(combos)
        for tup in combos[:6]:
            path = "T" if kind == "struct" else "T::" + v["name"]
            if v["shape"] == "named":
                ctors.append("%s { %s }" % (path, ", ".join("%s: %s" % (fname(j), x) for j, x in enumerate(tup))))
            elif v["shape"] == "tuple":
                ctors.append("%s(%s)" % (path, ", ".join(tup)))
            else:
                ctors.append(path)
    has_nondefault = any(C12_FIELD_TYPES[ti][0] in ("&'l str",) for v in variants for ti in v["fields"])
    traits = list(ALL8)
    if kind == "struct" and has_nondefault:
        pass      # &str: Default exists ("")
    inst_s = "<%s>" % ", ".join(inst) if inst else ""
    return {"item": item, "ctors": ctors, "inst": inst_s, "traits": traits, "kind": kind}


def c12_module(idx, d, entry, traits=None):
    traits = traits or d["traits"]
    TT = "T" + d["inst"]
    lines = ["pub mod m%d {" % idx,
             "    pub mod dx { %s %s }" % (derive_head(traits, entry), d["item"]),
             "    pub mod sd { #[derive(%s)] %s }" % (", ".join(traits), d["item"])]

    def vals(mod):
        return "{ use %s::T; let v: ::std::vec::Vec<%s::%s> = vec![%s]; v }" % (mod, mod, TT, ", ".join(d["ctors"]))
    lines.append("    pub fn run() -> String {")
    lines.append("        let a = %s; let b = %s;" % (vals("dx"), vals("sd")))
    lines.append("        let mut diff = String::new();")
    checks = []
    if "Debug" in traits:
        lines.append("        let debug_equal = a.iter().zip(b.iter()).all(|(x, y)| { let (p, q) = (format!(\"{:?}\", x), format!(\"{:?}\", y)); if p != q && diff.is_empty() { diff = format!(\"{} vs {}\", p, q); } p == q });")
        lines.append("        let debug_alt_equal = a.iter().zip(b.iter()).all(|(x, y)| format!(\"{:#?}\", x) == format!(\"{:#?}\", y) && format!(\"{:8.3?}\", x) == format!(\"{:8.3?}\", y));")
        checks += ["debug_equal", "debug_alt_equal"]
        if "Clone" in traits:
            lines.append("        let clone_equal = a.iter().all(|x| format!(\"{:?}\", ::core::clone::Clone::clone(x)) == format!(\"{:?}\", x)) && a.iter().zip(a.iter().rev()).all(|(x, y)| { let mut z = ::core::clone::Clone::clone(x); ::core::clone::Clone::clone_from(&mut z, y); format!(\"{:?}\", z) == format!(\"{:?}\", y) });")
            checks.append("clone_equal")
        if "Default" in traits:
            lines.append("        let default_equal = format!(\"{:?}\", <dx::%s as ::core::default::Default>::default()) == format!(\"{:?}\", <sd::%s as ::core::default::Default>::default());" % (TT, TT))
            checks.append("default_equal")
    if "PartialEq" in traits:
        lines.append("        let eq_equal = ::dx_support::table_eq(&a) == ::dx_support::table_eq(&b) && ::dx_support::table_ne(&a) == ::dx_support::table_ne(&b);")
        checks.append("eq_equal")
    if "PartialOrd" in traits:
        lines.append("        let pcmp_equal = ::dx_support::table_pcmp(&a) == ::dx_support::table_pcmp(&b) && ::dx_support::table_ops(&a) == ::dx_support::table_ops(&b);")
        checks.append("pcmp_equal")
    if "Ord" in traits:
        lines.append("        let cmp_equal = ::dx_support::table_cmp(&a) == ::dx_support::table_cmp(&b);")
        checks.append("cmp_equal")
    if "Hash" in traits and "PartialEq" in traits:
        lines.append("        let hash_consistent = ::dx_support::law_eq_hash(&a) == -1;")
        checks.append("hash_consistent")
    fmt = ",".join("\\\"%s\\\":{}" % c for c in checks)
    lines.append("        format!(\"{{\\\"id\\\":%d,\\\"nvals\\\":{},%s,\\\"diff\\\":\\\"{}\\\"}}\\n\", a.len(), %s, ::dx_support::json_str(&diff))" % (idx, fmt, ", ".join(checks)))
    lines.append("    }\n}")
    return "\n".join(lines), checks


C12_SPECIAL = [
    # (name, traits, item, driver body producing the same keys) - shapes the random grammar does not reach
    ("empty_enum", ["Clone", "Debug", "PartialEq", "Eq", "PartialOrd", "Ord", "Hash"], "pub enum T {}", None),
    ("empty_enum_generic", ["Clone", "Debug", "PartialEq", "Eq", "PartialOrd", "Ord", "Hash"], "pub enum T<G> { #[allow(dead_code)] Never(::core::convert::Infallible, G) }", None),
    ("unsized_tail", ["Debug", "PartialEq", "Eq", "PartialOrd", "Ord", "Hash"], "pub struct T<G: ?Sized> { pub head: u8, pub tail: G }",
     """let a: ::std::boxed::Box<dx::T<[u8]>> = ::std::boxed::Box::new(dx::T { head: 1, tail: [1u8, 2] });
        let a2: ::std::boxed::Box<dx::T<[u8]>> = ::std::boxed::Box::new(dx::T { head: 1, tail: [1u8, 3, 0] });
        let b: ::std::boxed::Box<sd::T<[u8]>> = ::std::boxed::Box::new(sd::T { head: 1, tail: [1u8, 2] });
        let b2: ::std::boxed::Box<sd::T<[u8]>> = ::std::boxed::Box::new(sd::T { head: 1, tail: [1u8, 3, 0] });
        let debug_equal = format!("{:?}", a) == format!("{:?}", b) && format!("{:#?}", a2) == format!("{:#?}", b2);
        let eq_equal = (*a == *a2) == (*b == *b2) && (*a == *a) == (*b == *b);
        let pcmp_equal = a.partial_cmp(&a2) == b.partial_cmp(&b2);
        let cmp_equal = (*a).cmp(&*a2) == (*b).cmp(&*b2);
        let hash_consistent = ::dx_support::feed_of(&*a) == ::dx_support::feed_of(&*a) && ::dx_support::feed_of(&*a) != ::dx_support::feed_of(&*a2);
        format!("{{\\"id\\":IDX,\\"nvals\\":2,\\"debug_equal\\":{},\\"eq_equal\\":{},\\"pcmp_equal\\":{},\\"cmp_equal\\":{},\\"hash_consistent\\":{},\\"diff\\":\\"\\"}}\\n", debug_equal, eq_equal, pcmp_equal, cmp_equal, hash_consistent)"""),
    ("unsized_str_tail", ["Debug", "PartialEq", "Eq", "PartialOrd", "Ord", "Hash"], "pub struct T(pub u8, pub str);", "COMPILE_ONLY"),
    ("float_partial", ["Clone", "Debug", "Default", "PartialEq", "PartialOrd"], "pub struct T(pub f64, pub i8);",
     """let xs = [(0.0f64, 1i8), (1.0, 0), (f64::NAN, 0), (1.0, 5), (f64::NAN, 7), (-0.0, 1)];
        let a: ::std::vec::Vec<dx::T> = xs.iter().map(|x| dx::T(x.0, x.1)).collect();
        let b: ::std::vec::Vec<sd::T> = xs.iter().map(|x| sd::T(x.0, x.1)).collect();
        let debug_equal = a.iter().zip(b.iter()).all(|(x, y)| format!("{:?}", x) == format!("{:?}", y) && format!("{:+.2?}", x) == format!("{:+.2?}", y));
        let eq_equal = ::dx_support::table_eq(&a) == ::dx_support::table_eq(&b) && ::dx_support::table_ne(&a) == ::dx_support::table_ne(&b);
        let pcmp_equal = ::dx_support::table_pcmp(&a) == ::dx_support::table_pcmp(&b) && ::dx_support::table_ops(&a) == ::dx_support::table_ops(&b);
        let default_equal = format!("{:?}", <dx::T as ::core::default::Default>::default()) == format!("{:?}", <sd::T as ::core::default::Default>::default());
        format!("{{\\"id\\":IDX,\\"nvals\\":6,\\"debug_equal\\":{},\\"eq_equal\\":{},\\"pcmp_equal\\":{},\\"default_equal\\":{},\\"diff\\":\\"\\"}}\\n", debug_equal, eq_equal, pcmp_equal, default_equal)"""),
    ("float_enum_partial", ["Clone", "Debug", "PartialEq", "PartialOrd"], "pub enum T { A(u8, f64, u8), B { x: f64 }, C }",
     """let mk_d = |k: usize| -> dx::T { match k { 0 => dx::T::A(0, f64::NAN, 1), 1 => dx::T::A(1, f64::NAN, 0), 2 => dx::T::A(1, 2.0, 0), 3 => dx::T::B { x: f64::NAN }, 4 => dx::T::B { x: 1.0 }, _ => dx::T::C } };
        let mk_s = |k: usize| -> sd::T { match k { 0 => sd::T::A(0, f64::NAN, 1), 1 => sd::T::A(1, f64::NAN, 0), 2 => sd::T::A(1, 2.0, 0), 3 => sd::T::B { x: f64::NAN }, 4 => sd::T::B { x: 1.0 }, _ => sd::T::C } };
        let a: ::std::vec::Vec<dx::T> = (0..6).map(mk_d).collect(); let b: ::std::vec::Vec<sd::T> = (0..6).map(mk_s).collect();
        let debug_equal = a.iter().zip(b.iter()).all(|(x, y)| format!("{:?}", x) == format!("{:?}", y));
        let eq_equal = ::dx_support::table_eq(&a) == ::dx_support::table_eq(&b);
        let pcmp_equal = ::dx_support::table_pcmp(&a) == ::dx_support::table_pcmp(&b) && ::dx_support::table_ops(&a) == ::dx_support::table_ops(&b);
        format!("{{\\"id\\":IDX,\\"nvals\\":6,\\"debug_equal\\":{},\\"eq_equal\\":{},\\"pcmp_equal\\":{},\\"diff\\":\\"\\"}}\\n", debug_equal, eq_equal, pcmp_equal)"""),
    ("param_H_state", ["Clone", "Debug", "Default", "PartialEq", "Eq", "PartialOrd", "Ord", "Hash"], "pub struct T<H, K = u8>(pub H, pub ::core::marker::PhantomData<K>);",
     """let a = vec![dx::T::<u8>(1, ::core::marker::PhantomData), dx::T::<u8>(2, ::core::marker::PhantomData)];
        let b = vec![sd::T::<u8>(1, ::core::marker::PhantomData), sd::T::<u8>(2, ::core::marker::PhantomData)];
        let debug_equal = a.iter().zip(b.iter()).all(|(x, y)| format!("{:?}", x) == format!("{:?}", y));
        let eq_equal = ::dx_support::table_eq(&a) == ::dx_support::table_eq(&b);
        let cmp_equal = ::dx_support::table_cmp(&a) == ::dx_support::table_cmp(&b);
        let pcmp_equal = ::dx_support::table_pcmp(&a) == ::dx_support::table_pcmp(&b);
        let hash_consistent = ::dx_support::law_eq_hash(&a) == -1;
        format!("{{\\"id\\":IDX,\\"nvals\\":2,\\"debug_equal\\":{},\\"eq_equal\\":{},\\"cmp_equal\\":{},\\"pcmp_equal\\":{},\\"hash_consistent\\":{},\\"diff\\":\\"\\"}}\\n", debug_equal, eq_equal, cmp_equal, pcmp_equal, hash_consistent)"""),
    ("raw_names", ["Clone", "Debug", "Default", "PartialEq", "Eq", "PartialOrd", "Ord", "Hash"], "pub struct r#T { pub r#type: u8, pub r#fn: bool }",
     """let a = vec![dx::T { r#type: 1, r#fn: true }, dx::T { r#type: 2, r#fn: false }]; let b = vec![sd::T { r#type: 1, r#fn: true }, sd::T { r#type: 2, r#fn: false }];
        let mut diff = String::new();
        let debug_equal = a.iter().zip(b.iter()).all(|(x, y)| { let (p, q) = (format!("{:?}", x), format!("{:?}", y)); if p != q { diff = format!("{} vs {}", p, q); } p == q });
        let eq_equal = ::dx_support::table_eq(&a) == ::dx_support::table_eq(&b);
        let cmp_equal = ::dx_support::table_cmp(&a) == ::dx_support::table_cmp(&b);
        let pcmp_equal = ::dx_support::table_pcmp(&a) == ::dx_support::table_pcmp(&b);
        format!("{{\\"id\\":IDX,\\"nvals\\":2,\\"debug_equal\\":{},\\"eq_equal\\":{},\\"cmp_equal\\":{},\\"pcmp_equal\\":{},\\"diff\\":\\"{}\\"}}\\n", debug_equal, eq_equal, cmp_equal, pcmp_equal, ::dx_support::json_str(&diff))"""),
    ("raw_enum_names", ["Clone", "Debug", "PartialEq"], "pub enum T { r#match { r#loop: u8 }, r#Self_(u8), r#type }",
     """let a = vec![dx::T::r#match { r#loop: 1 }, dx::T::r#Self_(2), dx::T::r#type]; let b = vec![sd::T::r#match { r#loop: 1 }, sd::T::r#Self_(2), sd::T::r#type];
        let mut diff = String::new();
        let debug_equal = a.iter().zip(b.iter()).all(|(x, y)| { let (p, q) = (format!("{:?}", x), format!("{:?}", y)); if p != q { diff = format!("{} vs {}", p, q); } p == q });
        let eq_equal = ::dx_support::table_eq(&a) == ::dx_support::table_eq(&b);
        format!("{{\\"id\\":IDX,\\"nvals\\":3,\\"debug_equal\\":{},\\"eq_equal\\":{},\\"diff\\":\\"{}\\"}}\\n", debug_equal, eq_equal, ::dx_support::json_str(&diff))"""),
    ("assoc_shorthand", ["Clone", "Debug", "PartialEq", "Eq", "PartialOrd", "Ord", "Hash"], "pub struct T<G: ::dx_support::Tr> { pub key: G::Assoc, pub n: u8 }", "COMPILE_ONLY"),
    ("assoc_shorthand_enum", ["Clone", "Debug", "PartialEq", "Hash"], "pub enum T<G: ::dx_support::Tr> { Key(G::Assoc), Pair(u8, ::core::option::Option<G::Assoc>), Nil }", "COMPILE_ONLY"),
    ("ord_but_partially_ordered_field", ["Clone", "Debug", "PartialEq", "Eq", "PartialOrd", "Ord"], "pub struct T(pub ::dx_support::QO, pub u8);",
     """let xs = [(0u8, 1u8, 0u8), (1, 1, 0), (0, 2, 0), (1, 0, 3), (0, 1, 5)];
        let a: ::std::vec::Vec<dx::T> = xs.iter().map(|x| dx::T(::dx_support::QO(x.0, x.1), x.2)).collect();
        let b: ::std::vec::Vec<sd::T> = xs.iter().map(|x| sd::T(::dx_support::QO(x.0, x.1), x.2)).collect();
        let debug_equal = a.iter().zip(b.iter()).all(|(x, y)| format!("{:?}", x) == format!("{:?}", y));
        let eq_equal = ::dx_support::table_eq(&a) == ::dx_support::table_eq(&b);
        let cmp_equal = ::dx_support::table_cmp(&a) == ::dx_support::table_cmp(&b);
        let pcmp_equal = ::dx_support::table_pcmp(&a) == ::dx_support::table_pcmp(&b) && ::dx_support::table_ops(&a) == ::dx_support::table_ops(&b);
        format!("{{\\"id\\":IDX,\\"nvals\\":5,\\"debug_equal\\":{},\\"eq_equal\\":{},\\"cmp_equal\\":{},\\"pcmp_equal\\":{},\\"diff\\":\\"\\"}}\\n", debug_equal, eq_equal, cmp_equal, pcmp_equal)"""),
    ("many_variants", ["Clone", "Debug", "PartialEq", "Eq", "PartialOrd", "Ord", "Hash"], "BIG_ENUM",
     """let ks = [0usize, 1, 2, 254, 255, 256, 257, 258, 299, 128, 129, 0];
        let a: ::std::vec::Vec<dx::T> = ks.iter().map(|k| dx::pick(*k)).collect();
        let b: ::std::vec::Vec<sd::T> = ks.iter().map(|k| sd::pick(*k)).collect();
        let debug_equal = a.iter().zip(b.iter()).all(|(x, y)| format!("{:?}", x) == format!("{:?}", y));
        let eq_equal = ::dx_support::table_eq(&a) == ::dx_support::table_eq(&b);
        let cmp_equal = ::dx_support::table_cmp(&a) == ::dx_support::table_cmp(&b);
        let pcmp_equal = ::dx_support::table_pcmp(&a) == ::dx_support::table_pcmp(&b) && ::dx_support::table_ops(&a) == ::dx_support::table_ops(&b);
        let hash_consistent = ::dx_support::law_eq_hash(&a) == -1;
        format!("{{\\"id\\":IDX,\\"nvals\\":12,\\"debug_equal\\":{},\\"eq_equal\\":{},\\"cmp_equal\\":{},\\"pcmp_equal\\":{},\\"hash_consistent\\":{},\\"diff\\":\\"\\"}}\\n", debug_equal, eq_equal, cmp_equal, pcmp_equal, hash_consistent)"""),
    ("unsized_path_qualified_inline", ["Debug", "PartialEq"], "pub struct T<G: ?::core::marker::Sized> { pub head: u8, pub tail: G }", "COMPILE_ONLY"),
    ("unsized_path_qualified_where", ["Debug", "PartialEq", "Eq", "Hash"], "pub struct T<G>(pub u8, pub G) where G: ?::std::marker::Sized;", "COMPILE_ONLY"),
    ("unsized_path_core", ["Debug"], "pub struct T<G: ?core::marker::Sized + ::core::fmt::Debug> { pub head: u8, pub tail: G }", "COMPILE_ONLY"),
    ("unsized_where_inline", ["Debug", "PartialEq", "PartialOrd"], "pub struct T<G: ::core::cmp::PartialOrd> where G: ?Sized { pub len: u8, pub tail: G }", "COMPILE_ONLY"),
    ("unsized_where_second", ["Debug", "PartialEq", "Eq", "Hash"], "pub struct T<'a, G: ::core::cmp::PartialEq + 'a>(pub &'a u8, pub G) where G: ::core::fmt::Debug, G: ?Sized;", "COMPILE_ONLY"),
    ("unsized_wrapper_last_arg", ["Debug", "PartialEq"], "pub struct T<K, V: ?Sized> { pub a: u8, pub inner: ::dx_support::Tagged<K, V> }", "COMPILE_ONLY"),
    ("where_self", ["Clone", "Debug", "PartialEq", "Eq", "Hash"], "pub struct T<G> where Self: ::core::marker::Sized, G: ::core::marker::Copy { pub a: G }",
     """let a = vec![dx::T { a: 1u8 }, dx::T { a: 2u8 }]; let b = vec![sd::T { a: 1u8 }, sd::T { a: 2u8 }];
        let debug_equal = a.iter().zip(b.iter()).all(|(x, y)| format!("{:?}", x) == format!("{:?}", y));
        let eq_equal = ::dx_support::table_eq(&a) == ::dx_support::table_eq(&b);
        let hash_consistent = ::dx_support::law_eq_hash(&a) == -1;
        format!("{{\\"id\\":IDX,\\"nvals\\":2,\\"debug_equal\\":{},\\"eq_equal\\":{},\\"hash_consistent\\":{},\\"diff\\":\\"\\"}}\\n", debug_equal, eq_equal, hash_consistent)"""),
]


def _twin_body(ctor_args, all8=True, default=True):
    """compare dx::T and sd::T built from the same constructor expressions"""
    a = ", ".join("dx::" + c for c in ctor_args)
    b = ", ".join("sd::" + c for c in ctor_args)
    n = len(ctor_args)
    src = """let a = vec![%s]; let b = vec![%s];
        let mut diff = String::new();
        let debug_equal = a.iter().zip(b.iter()).all(|(x, y)| { let (p, q) = (format!("{:?}", x), format!("{:?}", y)); if p != q { diff = format!("{} vs {}", p, q); } p == q })
            && a.iter().zip(b.iter()).all(|(x, y)| format!("{:#?}", x) == format!("{:#?}", y));
        let eq_equal = ::dx_support::table_eq(&a) == ::dx_support::table_eq(&b) && a.iter().all(|x| x.clone() == *x);
        let cmp_equal = ::dx_support::table_cmp(&a) == ::dx_support::table_cmp(&b);
        let pcmp_equal = ::dx_support::table_pcmp(&a) == ::dx_support::table_pcmp(&b) && ::dx_support::table_ops(&a) == ::dx_support::table_ops(&b);
        let hash_consistent = ::dx_support::law_eq_hash(&a) == -1;
        format!("{{\\"id\\":IDX,\\"nvals\\":%d,\\"debug_equal\\":{},\\"eq_equal\\":{},\\"cmp_equal\\":{},\\"pcmp_equal\\":{},\\"hash_consistent\\":{},\\"diff\\":\\"{}\\"}}\\n", debug_equal, eq_equal, cmp_equal, pcmp_equal, hash_consistent, ::dx_support::json_str(&diff))""" % (a, b, n)
    return src


ALL8 = ["Clone", "Debug", "Default", "PartialEq", "Eq", "PartialOrd", "Ord", "Hash"]
ALL7 = ["Clone", "Debug", "PartialEq", "Eq", "PartialOrd", "Ord", "Hash"]
# items produced by macro_rules! whose types / names / parameters are fragments passed by the caller (two hygiene contexts in one item)
C12_SPECIAL += [
    ("macro_rules_param_as_field_type", ALL8,
     "macro_rules! mk { ($name:ident, $p:ident) => { @HEAD@ pub struct $name<$p>(pub $p, pub u8); } } mk!(T, G);",
     _twin_body(["T::<u8>(1, 2)", "T::<u8>(1, 3)", "T::<u8>(0, 9)"])),
    ("macro_rules_ty_fragment_named", ALL8,
     "macro_rules! mk { ($name:ident, $t:ty) => { @HEAD@ pub struct $name { pub a: $t, pub b: u8 } } } mk!(T, u32);",
     _twin_body(["T { a: 1, b: 2 }", "T { a: 1, b: 3 }", "T { a: 0, b: 9 }"])),
    ("macro_rules_tt_fragment_enum", ALL7,
     "macro_rules! mk { ($name:ident, $p:ident, $t:tt, $u:ty) => { @HEAD@ pub enum $name<$p> { A($t, $p), B { x: $u, y: $t }, C } } } mk!(T, G, u8, (bool, u8));",
     _twin_body(["T::<u8>::A(1, 2)", "T::<u8>::A(1, 3)", "T::<u8>::B { x: (true, 1), y: 4 }", "T::<u8>::B { x: (false, 1), y: 4 }", "T::<u8>::C"])),
    ("macro_rules_field_and_variant_names", ALL7,
     "macro_rules! mk { ($name:ident, $f:ident, $v:ident) => { @HEAD@ pub enum $name { $v { $f: u8, other: u8 }, W(u16), Z } } } mk!(T, this, Other);",
     "COMPILE_ONLY"),
    ("macro_rules_field_names_struct", ALL8,
     "macro_rules! mk { ($name:ident, $f:ident, $g:ident) => { @HEAD@ pub struct $name { pub $f: u8, pub $g: u8, pub tail: u8 } } } mk!(T, this, __other);",
     _twin_body(["T { this: 1, __other: 2, tail: 0 }", "T { this: 1, __other: 3, tail: 0 }", "T { this: 0, __other: 9, tail: 1 }"])),
    # a where-clause that is present but empty (legal, typical of macro output), next to generated bounds
    ("empty_where_tuple_struct", ALL8, "pub struct T<G>(pub G, pub u8) where;", _twin_body(["T::<u8>(1, 2)", "T::<u8>(1, 3)", "T::<u8>(0, 9)"])),
    ("empty_where_named_struct", ALL8, "pub struct T<G> where { pub a: G, pub b: u8 }", _twin_body(["T::<u8> { a: 1, b: 2 }", "T::<u8> { a: 1, b: 3 }", "T::<u8> { a: 0, b: 9 }"])),
    ("empty_where_enum", ALL7, "pub enum T<'l, G, const N: usize> where { A(G, [u8; N]), B { r: &'l G }, C }",
     _twin_body(["T::A(1u8, [2u8])", "T::A(1u8, [3u8])", "T::B { r: &7u8 }", "T::C"])),
    ("where_trailing_comma_only_lifetime", ALL7, "pub struct T<'l, G: 'l>(pub &'l G, pub u8) where 'l: 'l,;", _twin_body(["T::<u8>(&1, 2)", "T::<u8>(&1, 3)", "T::<u8>(&0, 9)"])),
    # a wrapper named like the type it wraps (last path segment = the item's own name): an ordinary, non-recursive item
    ("samename_vec", ALL7, "pub struct Vec<G>(pub ::std::vec::Vec<G>, pub u8);", _twin_body(["Vec::<u8>(vec![1], 2)", "Vec::<u8>(vec![1], 3)", "Vec::<u8>(vec![], 9)"])),
    ("samename_option_enum", ALL7, "pub enum Option<G> { None, Some(::core::option::Option<G>) }",
     _twin_body(["Option::<u8>::None", "Option::<u8>::Some(::core::option::Option::Some(1))", "Option::<u8>::Some(::core::option::Option::None)"])),
    ("samename_assoc", ["Clone", "Debug", "PartialEq"], "pub struct Item<I: ::core::iter::Iterator> { pub index: usize, pub value: I::Item }", "COMPILE_ONLY"),
    ("samename_module_path", ALL8, "pub mod raw { #[derive(Clone, Debug, Default, PartialEq, Eq, PartialOrd, Ord, Hash)] pub struct T<G>(pub G); } @HEAD@ pub struct T<G> { pub inner: raw::T<G>, pub n: u8 }",
     _twin_body(["T::<u8> { inner: dx::raw::T(1), n: 2 }", "T::<u8> { inner: dx::raw::T(1), n: 3 }"]).replace("sd::T::<u8> { inner: dx::raw::T", "sd::T::<u8> { inner: sd::raw::T")),
    # more than ten fields (positions "10", "11" sort before "2" as text)
    ("wide_tuple_struct", ALL8, 'pub struct T(pub u8, pub u8, pub u8, pub u8, pub u8, pub u8, pub u8, pub u8, pub u8, pub u8, pub u8, pub u8, pub u8);', _twin_body(['T(0, 1, 2, 3, 4, 5, 6, 7, 8, 9, 10, 11, 12)', 'T(0, 1, 9, 3, 4, 5, 6, 7, 8, 2, 10, 11, 12)', 'T(0, 1, 2, 3, 4, 5, 6, 7, 8, 9, 11, 10, 12)', 'T(12, 11, 10, 9, 8, 7, 6, 5, 4, 3, 2, 1, 0)'])),
    ("wide_named_struct", ALL8, 'pub struct T { pub f0: u8, pub f1: u8, pub f2: u8, pub f3: u8, pub f4: u8, pub f5: u8, pub f6: u8, pub f7: u8, pub f8: u8, pub f9: u8, pub f10: u8, pub f11: u8 }', _twin_body(['T { f0: 0, f1: 1, f2: 2, f3: 3, f4: 4, f5: 5, f6: 6, f7: 7, f8: 8, f9: 9, f10: 10, f11: 11 }', 'T { f0: 0, f1: 1, f2: 9, f3: 3, f4: 4, f5: 5, f6: 6, f7: 7, f8: 8, f9: 2, f10: 10, f11: 11 }', 'T { f0: 0, f1: 1, f2: 2, f3: 3, f4: 4, f5: 5, f6: 6, f7: 7, f8: 8, f9: 9, f10: 11, f11: 10 }', 'T { f0: 11, f1: 10, f2: 9, f3: 8, f4: 7, f5: 6, f6: 5, f7: 4, f8: 3, f9: 2, f10: 1, f11: 0 }'])),
    ("wide_enum_variants", ALL7, 'pub enum T { A(u8, u8, u8, u8, u8, u8, u8, u8, u8, u8, u8, u8), B { g0: u8, g1: u8, g2: u8, g3: u8, g4: u8, g5: u8, g6: u8, g7: u8, g8: u8, g9: u8, g10: u8 }, C }', _twin_body(['T::A(0, 1, 2, 3, 4, 5, 6, 7, 8, 9, 10, 11)', 'T::A(0, 1, 9, 3, 4, 5, 6, 7, 8, 2, 10, 11)', 'T::A(0, 1, 2, 3, 4, 5, 6, 7, 8, 9, 11, 10)', 'T::A(11, 10, 9, 8, 7, 6, 5, 4, 3, 2, 1, 0)', 'T::B { g0: 0, g1: 1, g2: 2, g3: 3, g4: 4, g5: 5, g6: 6, g7: 7, g8: 8, g9: 9, g10: 10 }', 'T::B { g0: 0, g1: 1, g2: 9, g3: 3, g4: 4, g5: 5, g6: 6, g7: 7, g8: 8, g9: 2, g10: 10 }', 'T::B { g0: 0, g1: 1, g2: 2, g3: 3, g4: 4, g5: 5, g6: 6, g7: 7, g8: 8, g9: 9, g10: 11 }', 'T::C'])),
    ("macro_rules_nested_two_levels", ALL8,
     "macro_rules! outer { ($name:ident, $t:ty) => { inner!($name, $t, u8); } } macro_rules! inner { ($name:ident, $t:ty, $u:ty) => { @HEAD@ pub struct $name(pub $t, pub $u); } } outer!(T, u32);",
     _twin_body(["T(1, 2)", "T(1, 3)", "T(0, 9)"])),
]


def c12_special_module(idx, spec, entry):
    name, traits, item, body = spec
    if item == "BIG_ENUM":
        # 300 unit variants (positions beyond one byte) and a constructor by position
        vs = ["V%03d" % k for k in range(300)]
        item = "pub enum T { %s }\n        pub fn pick(k: usize) -> T { const ALL: [T; 300] = [%s]; ALL[k].clone() }" % (", ".join(vs), ", ".join("T::" + v for v in vs))
    if "@HEAD@" in item:       # the derive request is written INSIDE a macro_rules! body: tokens of the item come from two hygiene contexts
        dx_item, sd_item = item.replace("@HEAD@", derive_head(traits, entry)), item.replace("@HEAD@", "#[derive(%s)]" % ", ".join(traits))
    else:
        dx_item, sd_item = "%s %s" % (derive_head(traits, entry), item), "#[derive(%s)] %s" % (", ".join(traits), item)
    lines = ["pub mod m%d {" % idx,
             "    pub mod dx { %s }" % dx_item,
             "    pub mod sd { %s }" % sd_item]
    if body is None or body == "COMPILE_ONLY":
        body = "format!(\"{{\\\"id\\\":IDX,\\\"nvals\\\":0,\\\"diff\\\":\\\"\\\"}}\\n\")"
    lines.append("    pub fn run() -> String {\n        %s\n    }\n}" % body.replace("IDX", str(idx)))
    return "\n".join(lines)


# user impls that are unusual but legal; (tag, derive_ex arguments, items, statements that use the user's own and the derived forms)
IMPL_SPECIALS = [
    ("named_lt_unsized_rhs", "Add, AddAssign",
     "#[derive(Clone)] pub struct X(pub usize);\n@HEAD@ impl<'a> ::core::ops::Add<&'a str> for X { type Output = X; fn add(self, r: &'a str) -> X { X(self.0 + r.len()) } }",
     "let a = X(1) + \"ab\"; let b = &a + \"c\"; let mut c = b.clone(); c += \"d\"; assert_eq!(c.0, 5);"),
    ("named_lt_output_borrows", "Sub",
     "#[derive(Clone)] pub struct N(pub u8); pub struct Pair<'a>(pub &'a N, pub &'a N);\n@HEAD@ impl<'a> ::core::ops::Sub<&'a N> for &'a N { type Output = Pair<'a>; fn sub(self, r: &'a N) -> Pair<'a> { Pair(self, r) } }",
     "let (n1, n2) = (N(1), N(2)); let p = &n1 - &n2; assert_eq!((p.0).0 + (p.1).0, 3);"),
    ("named_lt_other_operand_carries_it", "Add",
     "#[derive(Clone)] pub struct Step(pub u8); #[derive(Clone)] pub struct Cursor<'a>(pub &'a Step, pub u8);\n"
     "@HEAD@ impl<'a> ::core::ops::Add<&'a Step> for Cursor<'a> { type Output = Cursor<'a>; fn add(self, r: &'a Step) -> Cursor<'a> { Cursor(r, self.1 + 1) } }",
     "let (s1, s2) = (Step(1), Step(2)); let c = Cursor(&s1, 0) + &s2; let d = &c + &s2; assert_eq!(d.1, 2);"),
    ("named_lt_slice_rhs", "BitOr",
     "#[derive(Clone)] pub struct V<T>(pub ::std::vec::Vec<T>);\n@HEAD@ impl<'a, T: ::core::clone::Clone> ::core::ops::BitOr<&'a [T]> for &'a V<T> { type Output = V<T>; fn bitor(self, r: &'a [T]) -> V<T> { let mut v = self.0.clone(); v.extend_from_slice(r); V(v) } }",
     "let v = V(vec![1u8]); let xs = [2u8, 3]; let w = &v | &xs[..]; assert_eq!(w.0.len(), 3);"),
    ("rhs_tuple_of_self", "Add",
     "#[derive(Clone)] pub struct Y(pub u8);\n@HEAD@ impl ::core::ops::Add<(Self, u8)> for Y { type Output = Self; fn add(self, r: (Self, u8)) -> Self { Y(self.0 + (r.0).0 + r.1) } }",
     "let a = Y(1) + (Y(2), 3); let b = &a + (Y(1), 1); let c = &b + &(Y(0), 0); let d = b + &(Y(0), 1); assert_eq!((a.0, c.0, d.0), (6, 8, 9));"),
    ("output_array_of_self", "Mul",
     "#[derive(Clone)] pub struct Z(pub u8);\n@HEAD@ impl ::core::ops::Mul<u8> for &Z { type Output = [Z; 2]; fn mul(self, r: u8) -> [Z; 2] { [Z(self.0), Z(r)] } }\n"
     "impl<'q> ::core::ops::Mul<u8> for &'q mut Z { type Output = u8; fn mul(self, r: u8) -> u8 { r } }",
     "let z = Z(4); let a = &z * 2u8; let b = z.clone() * 3u8; let c = z * &5u8; assert_eq!((a[1].0, b[1].0, c[1].0), (2, 3, 5));"),
]


def impl_special_program(spec):
    tag, attr, items, body = spec
    return ("#![allow(dead_code, unused)]\n" + items.replace("@HEAD@", "#[::derive_ex::derive_ex(%s)]" % attr) + "\nfn main() { %s }\n" % body)


def default_fragment_module(idx, entry):
    """the items written by a macro_rules! macro, the default VALUES containing an `expr` fragment passed by the caller (`$b * 2` with
    $b = 1 + 2): the fragment must keep its grouping.  Oracle: the same expressions evaluated by rustc in a plain function of the macro."""
    head = derive_head(["Default"], entry)
    return """pub mod m%d {
    macro_rules! mk { ($b:expr, $t:ty, $c:expr) => {
        mk2!("abc", ::dx_support::SRC7, $b);
        %s pub struct D(#[default($b * 2)] pub u32, #[default(7 - $b)] pub u32, #[default($b)] pub u32, #[default(<$t>::MAX - ($b))] pub $t, #[default($c as u32 * 2)] pub u32);
        %s #[default(D2($b * 2, !$b))] pub struct D2(pub u32, pub u32);
        %s pub enum E { A, #[default] B { #[default(-$b)] x: i32, #[default(2 * $b)] y: i32, #[default($c * 3)] z: i64 } }
        pub fn plain() -> (u32, u32, u32, $t, u32, u32, u32, i32, i32, i64) { ($b * 2, 7 - $b, $b, <$t>::MAX - ($b), $c as u32 * 2, $b * 2, !$b, -$b, 2 * $b, $c * 3) }
    } }
    // a fragment that IS the whole default expression: a string literal / a path still goes through Into, anything else is taken as is
    macro_rules! mk2 { ($s:expr, $p:expr, $n:expr) => {
        HEADX pub struct F { #[default($s)] pub s: ::std::string::String, #[default($p)] pub p: ::dx_support::Pr, #[default($n)] pub n: u32, #[default($s)] pub r: &'static str }
        pub fn plain2() -> (::std::string::String, ::dx_support::Pr, u32, &'static str) {
            (::core::convert::Into::<::std::string::String>::into($s), ::core::convert::Into::<::dx_support::Pr>::into($p), $n, $s) }
    } }
    mk!(1 + 2, u32, 4 - 1);
    pub fn run() -> String {
        let f = <F as ::core::default::Default>::default();
        let ok2 = (f.s, f.p, f.n, f.r) == plain2();
        let d = <D as ::core::default::Default>::default();
        let d2 = <D2 as ::core::default::Default>::default();
        let e = match <E as ::core::default::Default>::default() { E::B { x, y, z } => (x, y, z), E::A => (0, 0, 0) };
        let got = (d.0, d.1, d.2, d.3, d.4, d2.0, d2.1, e.0, e.1, e.2);
        format!("{{\\"id\\":%d,\\"ev\\":\\"same_as_twin\\",\\"equal\\":{},\\"got\\":\\"{:?}\\",\\"want\\":\\"{:?}\\"}}\n", got == plain() && ok2, got, plain())
    }
}""".replace("HEADX", head) % (idx, head, head, head, idx)


def debug_wrapped_tail_module(idx, entry):
    """structs whose LAST field is a wrapper with several type arguments, the last of which may be unsized (`Tagged<u16, G>`, `G: ?Sized`;
    `Tagged<bool, str>`); instantiated with sized arguments every formatter flag must give what the std-derived twin gives, and the
    unsized instantiations must type-check"""
    head = derive_head(["Debug"], entry)
    items = ("HEAD pub struct A<G: ?::core::marker::Sized> { pub n: u8, pub body: ::dx_support::Tagged<u16, G> }\n"
             "        HEAD pub struct B(pub u8, pub ::dx_support::Tagged<bool, str>);\n"
             "        HEAD pub struct C<K, V: ?::core::marker::Sized>(pub ::dx_support::Tagged<K, ::dx_support::Tagged<K, V>>);\n"
             "        pub fn show_a(x: &A<str>) -> String { format!(\"{:?}\", x) }\n"
             "        pub fn show_b(x: &B) -> String { format!(\"{:#?}\", x) }\n"
             "        pub fn show_c(x: &C<u8, [u8]>) -> String { format!(\"{:?}\", x) }")
    flags = ", ".join("format!(\"%s\", $x)" % f for f in FLAGS)
    return """pub mod m%d {
    pub mod dx {
        %s
    }
    pub mod sd {
        %s
    }
    macro_rules! all { ($x:expr) => { vec![%s] } }
    pub fn run() -> String {
        let a1 = all!(dx::A::<i32> { n: 1, body: ::dx_support::Tagged(7u16, -3i32) }); let a2 = all!(sd::A::<i32> { n: 1, body: ::dx_support::Tagged(7u16, -3i32) });
        let c1 = all!(dx::C::<u8, f64>(::dx_support::Tagged(1u8, ::dx_support::Tagged(2u8, 1.5f64)))); let c2 = all!(sd::C::<u8, f64>(::dx_support::Tagged(1u8, ::dx_support::Tagged(2u8, 1.5f64))));
        format!("{{\\"id\\":%d,\\"ev\\":\\"same_as_twin\\",\\"equal\\":{}}}\\n", a1 == a2 && c1 == c2)
    }
}""" % (idx, items.replace("HEAD", head), items.replace("HEAD", "#[derive(Debug)]"), flags, idx)


def debug_ignored_before_tail_module(idx, entry):
    """structs with `#[debug(ignore)]` fields IN FRONT OF a last field that may be unsized (a `?Sized` parameter, `str`, `[u8]`, a wrapper):
    the tail is still the last field of the STRUCT, whatever is printed; sized instantiations are compared with the std-derived twin that
    lacks the ignored fields, under every formatter flag, and the unsized instantiations must type-check"""
    head = derive_head(["Debug"], entry)
    dx_items = ("HEAD pub struct A<G: ?Sized> { #[debug(ignore)] pub skip: u8, pub n: u8, pub body: G }\n"
                "        HEAD pub struct B(#[debug(ignore)] pub u8, pub str);\n"
                "        HEAD pub struct C<V: ?Sized>(pub u8, #[debug(ignore)] pub u16, pub ::dx_support::Tagged<u8, V>);\n"
                "        HEAD pub struct D { #[debug(ignore)] pub a: u8, pub m: u8, #[debug(ignore)] pub b: u8, pub tail: [u8] }\n"
                "        HEAD pub struct E<G: ?Sized>(#[debug(ignore)] pub u8, pub G);\n")
    sd_items = ("HEAD pub struct A<G: ?Sized> { pub n: u8, pub body: G }\n"
                "        HEAD pub struct B(pub str);\n"
                "        HEAD pub struct C<V: ?Sized>(pub u8, pub ::dx_support::Tagged<u8, V>);\n"
                "        HEAD pub struct D { pub m: u8, pub tail: [u8] }\n"
                "        HEAD pub struct E<G: ?Sized>(pub G);\n")
    shows = ("        pub fn show_a(x: &A<str>) -> String { format!(\"{:?}\", x) }\n"
             "        pub fn show_b(x: &B) -> String { format!(\"{:#?}\", x) }\n"
             "        pub fn show_c(x: &C<[u8]>) -> String { format!(\"{:?}\", x) }\n"
             "        pub fn show_d(x: &D) -> String { format!(\"{:?}\", x) }\n"
             "        pub fn show_e(x: &E<dyn ::core::fmt::Debug>) -> String { format!(\"{:?}\", x) }")
    flags = ", ".join("format!(\"%s\", $x)" % f for f in FLAGS)
    return """pub mod m%d {
    pub mod dx {
        %s
    }
    pub mod sd {
        %s
    }
    macro_rules! all { ($x:expr) => { vec![%s] } }
    pub fn run() -> String {
        let a1 = all!(dx::A::<i32> { skip: 9, n: 1, body: -3i32 }); let a2 = all!(sd::A::<i32> { n: 1, body: -3i32 });
        let c1 = all!(dx::C::<f64>(1u8, 7u16, ::dx_support::Tagged(2u8, 1.5f64))); let c2 = all!(sd::C::<f64>(1u8, ::dx_support::Tagged(2u8, 1.5f64)));
        let e1 = all!(dx::E::<&str>(5u8, "x")); let e2 = all!(sd::E::<&str>("x"));
        let b1: ::std::boxed::Box<dx::E<[u8]>> = ::std::boxed::Box::new(dx::E(1u8, [1u8, 2]));
        let b2: ::std::boxed::Box<sd::E<[u8]>> = ::std::boxed::Box::new(sd::E([1u8, 2]));
        let u = dx::show_e(&dx::E(0u8, 3u8)) == sd::show_e(&sd::E(3u8)) && format!("{:?}", b1) == format!("{:?}", b2) && format!("{:#?}", b1) == format!("{:#?}", b2);
        format!("{{\\"id\\":%d,\\"ev\\":\\"same_as_twin\\",\\"equal\\":{}}}\\n", a1 == a2 && c1 == c2 && e1 == e2 && u)
    }
}""" % (idx, (dx_items + shows).replace("HEAD", head), (sd_items + shows).replace("HEAD", "#[derive(Debug)]"), flags, idx)


def default_shadow_module(idx, entry):
    """default expressions that call functions named like EARLIER fields of the same item: the expressions are the user's and keep
    meaning the user's functions"""
    head = derive_head(["Default"], entry)
    return """pub mod m%d {
    use ::core::cmp::max;
    fn scale(x: u32) -> u32 { x * 2 }
    fn first() -> u8 { 9 }
    %s pub struct S { #[default(|x| x + 1)] pub scale: fn(u32) -> u32, #[default(scale(10))] pub size: u32, pub first: u8, #[default(first())] pub second: u8 }
    %s pub enum E { #[default] V { max: u32, #[default(max(640u32, 480))] width: u32 }, W }
    %s pub struct T3(#[default(3)] pub u8, #[default(scale(2) as u8)] pub u8);
    pub fn run() -> String {
        let s = <S as ::core::default::Default>::default();
        let w = match <E as ::core::default::Default>::default() { E::V { max: _, width } => width, E::W => 0 };
        let t = <T3 as ::core::default::Default>::default();
        let got = (s.size, (s.scale)(1), s.first, s.second, w, t.0, t.1);
        format!("{{\\"id\\":%d,\\"ev\\":\\"same_as_twin\\",\\"equal\\":{},\\"got\\":\\"{:?}\\",\\"want\\":\\"(20, 2, 0, 9, 640, 3, 4)\\"}}\\n", got == (20, 2, 0, 9, 640, 3, 4), got)
    }
}""" % (idx, head, head, head, idx)
