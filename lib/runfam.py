"""Run-time families C07 (Clone), C08 (struct operators), C09 (impl operators): program generators.
The generators only write programs down and log what the real code does."""
import itertools, json, random
import dxlib as dx

BINOPS = ["Add", "BitAnd", "BitOr", "BitXor", "Div", "Mul", "Rem", "Shl", "Shr", "Sub"]
FN = {"Add": "add", "BitAnd": "bitand", "BitOr": "bitor", "BitXor": "bitxor", "Div": "div", "Mul": "mul", "Rem": "rem",
      "Shl": "shl", "Shr": "shr", "Sub": "sub", "Neg": "neg", "Not": "not"}
SYM = {"Add": "+", "BitAnd": "&", "BitOr": "|", "BitXor": "^", "Div": "/", "Mul": "*", "Rem": "%", "Shl": "<<", "Shr": ">>", "Sub": "-",
       "Neg": "-", "Not": "!"}
HEAD = "#![allow(dead_code, unused, non_camel_case_types, non_snake_case, clippy::all)]\n"


def derive_head(traits, entry):
    if entry == "attr":
        return "#[::derive_ex::derive_ex(%s)]" % ", ".join(traits)
    return "#[derive(::derive_ex::Ex)] #[derive_ex(%s)]" % ", ".join(traits)


# ------------------------------------------------------------------------------------------------
# C07
# ------------------------------------------------------------------------------------------------
def shape_values(shape):
    """abstract values of a shape (spec vocabulary)"""
    out = []
    for vi, n in enumerate(shape):
        for tup in itertools.product((0, 1), repeat=n):
            out.append({"v": vi + 1, "f": [{"tag": j, "val": x} for j, x in enumerate(tup)]})
    return out


def clone_module(idx, shape, entry, named_mask, generic=False):
    """module with one type of the given shape (number of fields per variant) deriving Clone and a driver that
    executes every transition of MC_Clone from every state"""
    is_struct = len(shape) == 1
    ty = "::dx_support::CF" if not generic else "X"
    g = "<X>" if generic else ""
    inst = "<::dx_support::CF>" if generic else ""

    def decl(vi, n):
        named = (named_mask >> vi) & 1
        if n == 0:
            return ("", "unit")
        if named:
            return ("{ " + ", ".join("f%d: %s" % (j, ty) for j in range(n)) + " }", "named")
        return ("(" + ", ".join(ty for j in range(n)) + ")", "tuple")
    lines = ["pub mod m%d {" % idx, "    use ::dx_support::CF;"]
    if is_struct:
        body, kind = decl(0, shape[0])
        lines.append("    %s pub struct T%s %s%s" % (derive_head(["Clone"], entry), g, body, "" if kind == "named" else ";"))
    else:
        vs = ", ".join("A%d %s" % (vi, decl(vi, n)[0]) for vi, n in enumerate(shape))
        lines.append("    %s pub enum T%s { %s }" % (derive_head(["Clone"], entry), g, vs))
    TT = "T" + inst
    # constructor and projection (no Clone involved)
    lines.append("    fn mk(v: usize, x: &[u8]) -> %s { match v {" % TT)
    for vi, n in enumerate(shape):
        _, kind = decl(vi, n)
        path = "T" if is_struct else "T::A%d" % vi
        args = ["CF(%d, x[%d])" % (j, j) for j in range(n)]
        if kind == "unit":
            e = path
        elif kind == "named":
            e = "%s { %s }" % (path, ", ".join("f%d: %s" % (j, a) for j, a in enumerate(args)))
        else:
            e = "%s(%s)" % (path, ", ".join(args))
        lines.append("        %d => %s," % (vi + 1, e))
    lines.append("        _ => unreachable!() } }")
    lines.append("    fn show(t: &%s) -> String { match t {" % TT)
    for vi, n in enumerate(shape):
        _, kind = decl(vi, n)
        path = "T" if is_struct else "T::A%d" % vi
        bind = ["g%d" % j for j in range(n)]
        if kind == "unit":
            pat = path
        elif kind == "named":
            pat = "%s { %s }" % (path, ", ".join("f%d: g%d" % (j, j) for j in range(n)))
        else:
            pat = "%s(%s)" % (path, ", ".join(bind))
        fs = " + \",\" + ".join("&format!(\"{{\\\"tag\\\":{},\\\"val\\\":{}}}\", g%d.0, g%d.1)" % (j, j) for j in range(n)) or "\"\""
        lines.append("        %s => format!(\"{{\\\"v\\\":%d,\\\"f\\\":[{}]}}\", String::new() + %s)," % (pat, vi + 1, fs))
    lines.append("    } }")
    vals = shape_values(shape)
    arr = ", ".join("(%d, &[%s])" % (v["v"], ", ".join(str(f["val"]) for f in v["f"])) for v in vals)
    lines.append("    const VALS: &[(usize, &[u8])] = &[%s];" % arr)
    lines.append("""    fn emit(out: &mut String, x: (usize, &[u8]), y: (usize, &[u8]), act: &str, d: &str, s: &str, a: &%s, b: &%s, lg: Vec<String>) {
        let (pa, pb) = if d == "a" { (mk(x.0, x.1), mk(y.0, y.1)) } else { (mk(y.0, y.1), mk(x.0, x.1)) };
        out.push_str(&format!("{{\\"id\\":%d,\\"pre\\":{{\\"a\\":{},\\"b\\":{}}},\\"act\\":\\"{}\\",\\"d\\":\\"{}\\",\\"s\\":\\"{}\\",\\"log\\":{},\\"post\\":{{\\"a\\":{},\\"b\\":{}}}}}\\n",
            show(&pa), show(&pb), act, d, s, ::dx_support::json_strs(&lg), show(a), show(b)));
    }""" % (TT, TT, idx))
    lines.append("""    pub fn run() -> String {
        let mut out = String::new();
        for &x in VALS { for &y in VALS {
            // x is the destination's value, y the source's value
            { let mut a = mk(x.0, x.1); let b = mk(y.0, y.1); ::dx_support::take_log();
              a = ::core::clone::Clone::clone(&b); let lg = ::dx_support::take_log(); emit(&mut out, x, y, "clone", "a", "b", &a, &b, lg); }
            { let mut a = mk(x.0, x.1); let b = mk(y.0, y.1); ::dx_support::take_log();
              ::core::clone::Clone::clone_from(&mut a, &b); let lg = ::dx_support::take_log(); emit(&mut out, x, y, "clone_from", "a", "b", &a, &b, lg); }
            { let mut b = mk(x.0, x.1); let a = mk(y.0, y.1); ::dx_support::take_log();
              b = ::core::clone::Clone::clone(&a); let lg = ::dx_support::take_log(); emit(&mut out, x, y, "clone", "b", "a", &a, &b, lg); }
            { let mut b = mk(x.0, x.1); let a = mk(y.0, y.1); ::dx_support::take_log();
              ::core::clone::Clone::clone_from(&mut b, &a); let lg = ::dx_support::take_log(); emit(&mut out, x, y, "clone_from", "b", "a", &a, &b, lg); }
        } }
        out
    }""")
    return "\n".join(lines + ["}"])


def clone_history_module(idx, shape, entry, named_mask, script):
    """same type, but a scripted history: list of ("set", var, value-index) / ("clone", d, s) / ("clone_from", d, s)"""
    base = clone_module(idx, shape, entry, named_mask)
    cut = base.index("    pub fn run() -> String {")
    head = base[:cut]
    vals = shape_values(shape)
    body = ["    pub fn run() -> String {", "        let mut out = String::new();",
            "        let mut a = mk(VALS[0].0, VALS[0].1); let mut b = mk(VALS[0].0, VALS[0].1);"]
    for step in script:
        if step[0] == "set":
            body.append("        %s = mk(VALS[%d].0, VALS[%d].1);" % (step[1], step[2], step[2]))
            body.append("        out.push_str(&format!(\"{{\\\"id\\\":%d,\\\"act\\\":\\\"reset\\\",\\\"post\\\":{{\\\"a\\\":{},\\\"b\\\":{}}}}}\\n\", show(&a), show(&b)));" % idx)
        else:
            d, s = step[1], step[2]
            call = ("%s = ::core::clone::Clone::clone(&%s);" % (d, s)) if step[0] == "clone" else ("::core::clone::Clone::clone_from(&mut %s, &%s);" % (d, s))
            body.append("        ::dx_support::take_log(); %s let lg = ::dx_support::take_log();" % call)
            body.append("        out.push_str(&format!(\"{{\\\"id\\\":%d,\\\"act\\\":\\\"%s\\\",\\\"d\\\":\\\"%s\\\",\\\"s\\\":\\\"%s\\\",\\\"log\\\":{},\\\"post\\\":{{\\\"a\\\":{},\\\"b\\\":{}}}}}\\n\", ::dx_support::json_strs(&lg), show(&a), show(&b)));" % (idx, step[0], d, s))
    body += ["        out", "    }", "}"]
    return head + "\n".join(body)


# ------------------------------------------------------------------------------------------------
# C08
# ------------------------------------------------------------------------------------------------
def ops_module(idx, n, kind, entry, ops=None, generic=False):
    """struct with n Tm fields deriving all 22 operator traits; driver exercises every form"""
    ops = ops or BINOPS
    traits = list(ops) + [o + "Assign" for o in ops] + ["Neg", "Not"]
    ty = "X" if generic else "::dx_support::Tm"
    g = "<X>" if generic else ""
    TT = "T<::dx_support::Tm>" if generic else "T"
    if kind == "unit":
        decl = "pub struct T%s;" % g if not generic else None
    elif kind == "named":
        decl = "pub struct T%s { %s }" % (g, ", ".join("f%d: %s" % (j, ty) for j in range(n)))
    else:
        decl = "pub struct T%s(%s);" % (g, ", ".join(ty for _ in range(n)))
    lines = ["pub mod m%d {" % idx, "    use ::dx_support::{tm, Tm};", "    %s %s" % (derive_head(traits, entry), decl)]

    def ctor(c):
        args = ["tm(\"%s%d\")" % (c, j) for j in range(n)]
        if kind == "unit":
            return "T"
        if kind == "named":
            return "T { %s }" % ", ".join("f%d: %s" % (j, a) for j, a in enumerate(args))
        return "T(%s)" % ", ".join(args)
    acc = ["t.f%d.0.clone()" % j for j in range(n)] if kind == "named" else ["t.%d.0.clone()" % j for j in range(n)]
    lines.append("    fn show(t: &%s) -> String { let v: Vec<String> = vec![%s]; ::dx_support::json_strs(&v) }" % (TT, ", ".join(acc)))
    lines.append("    pub fn run() -> String {\n        let mut out = String::new();")

    def emit(ev, fields):
        fmt = ",".join("\\\"%s\\\":%s" % (k, "{}" if v is not None else "null") for k, v in fields)
        args = ", ".join(v for k, v in fields if v is not None)
        lines.append("        out.push_str(&format!(\"{{\\\"id\\\":%d,\\\"ev\\\":\\\"%s\\\",%s}}\\n\"%s));" % (idx, ev, fmt, (", " + args) if args else ""))
    for op in ops:
        s = SYM[op]
        for lref in (False, True):
            for rref in (False, True):
                lines.append("        { let a: %s = %s; let b: %s = %s; ::dx_support::take_log();" % (TT, ctor("a"), TT, ctor("b")))
                lines.append("          let r = %sa %s %sb; let lg = ::dx_support::take_log();" % ("&" if lref else "", s, "&" if rref else ""))
                emit("binop", [("op", "\"\\\"%s\\\"\"" % op), ("lref", "\"%s\"" % str(lref).lower()), ("rref", "\"%s\"" % str(rref).lower()),
                               ("result", "show(&r)"), ("log", "::dx_support::json_strs(&lg)"),
                               ("a_after", "show(&a)" if lref else "\"[]\""), ("b_after", "show(&b)" if rref else "\"[]\"")])
                lines.append("        }")
        for rref in (False, True):
            lines.append("        { let mut a: %s = %s; let b: %s = %s; ::dx_support::take_log();" % (TT, ctor("a"), TT, ctor("b")))
            lines.append("          a %s= %sb; let lg = ::dx_support::take_log();" % (s, "&" if rref else ""))
            emit("assignop", [("op", "\"\\\"%s\\\"\"" % op), ("rref", "\"%s\"" % str(rref).lower()), ("a_after", "show(&a)"),
                              ("log", "::dx_support::json_strs(&lg)"), ("b_after", "show(&b)" if rref else "\"[]\"")])
            lines.append("        }")
    for op in ("Neg", "Not"):
        for lref in (False, True):
            lines.append("        { let a: %s = %s; ::dx_support::take_log();" % (TT, ctor("a")))
            lines.append("          let r = %s%sa; let lg = ::dx_support::take_log();" % (SYM[op], "&" if lref else ""))
            emit("unop", [("op", "\"\\\"%s\\\"\"" % op), ("lref", "\"%s\"" % str(lref).lower()), ("result", "show(&r)"),
                          ("log", "::dx_support::json_strs(&lg)"), ("a_after", "show(&a)" if lref else "\"[]\"")])
            lines.append("        }")
    lines.append("        out\n    }\n}")
    return "\n".join(lines)


# ------------------------------------------------------------------------------------------------
# C09
# ------------------------------------------------------------------------------------------------
def ty_of(side, rhs_self):
    return "LT" if (side == "l" or rhs_self) else "RT"


LOCAL_OPERANDS = """    pub struct LT(pub String);
    impl ::core::clone::Clone for LT { fn clone(&self) -> Self { ::dx_support::log(format!("cloneL:{}", self.0)); LT(self.0.clone()) } }
    pub struct RT(pub String);
    impl ::core::clone::Clone for RT { fn clone(&self) -> Self { ::dx_support::log(format!("cloneR:{}", self.0)); RT(self.0.clone()) } }"""


def refty(t, isref):
    return ("&" + t) if isref else t


def implop_module(idx, op, base, rhs_self, want_bin, want_assign, base_is_assign=False, generic=False):
    """user impl of `op` in base form (bl, br) carrying #[derive_ex(..)]; returns (source, request-for-inproc, descriptor)"""
    bl, br = base
    L, R = ty_of("l", rhs_self), ty_of("r", rhs_self)
    fn = FN[op]
    req = ([op] if want_bin else []) + ([op + "Assign"] if want_assign else [])
    attr = ", ".join(req)
    if base_is_assign:
        impl = ("impl ::core::ops::%sAssign<%s> for %s { fn %s_assign(&mut self, rhs: %s) { ::dx_support::log(\"call\".to_string()); "
                "self.0 = format!(\"assigned({},{})\", self.0, rhs.0); } }" % (op, refty(R, br == "r"), L, fn, refty(R, br == "r")))
    else:
        impl = ("impl ::core::ops::%s<%s> for %s { type Output = %s; fn %s(self, rhs: %s) -> %s { ::dx_support::log(\"call\".to_string()); "
                "%s(format!(\"base({},{})\", self.0, rhs.0)) } }" % (op, refty(R, br == "r"), refty(L, bl == "r"), L, fn, refty(R, br == "r"), L, L))
    lines = ["pub mod m%d {" % idx, LOCAL_OPERANDS, "    #[::derive_ex::derive_ex(%s)] %s" % (attr, impl)]
    lines.append("    fn counts(lg: &[String]) -> (usize, usize, usize) { (lg.iter().filter(|s| *s == \"call\").count(), "
                 "lg.iter().filter(|s| s.starts_with(\"clone\") && s.ends_with(\":L\")).count(), lg.iter().filter(|s| s.starts_with(\"clone\") && s.ends_with(\":R\")).count()) }")
    lines.append("    pub fn run() -> String {\n        let mut out = String::new();")
    s = SYM[op]
    mkl = "%s(\"L\".to_string())" % L
    mkr = "%s(\"R\".to_string())" % R

    def emit(ev, form, result_expr, unchanged_expr, key):
        lines.append("          let (c, lc, rc) = counts(&lg);")
        lines.append("          out.push_str(&format!(\"{{\\\"id\\\":%d,\\\"ev\\\":\\\"%s\\\",\\\"form\\\":{{\\\"l\\\":\\\"%s\\\",\\\"r\\\":\\\"%s\\\"}},\\\"calls\\\":{},\\\"lclones\\\":{},\\\"rclones\\\":{},\\\"%s\\\":\\\"{}\\\",\\\"operands_unchanged\\\":{}}}\\n\", c, lc, rc, %s, %s));"
                     % (idx, ev, form[0], form[1], key, result_expr, unchanged_expr))
    if base_is_assign:
        if want_bin:
            lines.append("        { let l = %s; let r = %s; ::dx_support::take_log(); let o = l %s %sr; let lg = ::dx_support::take_log();" % (mkl, mkr, s, "&" if br == "r" else ""))
            emit("implbin_from_assign", ("v", br), "o.0", "true", "result")
            lines.append("        }")
    else:
        if want_bin:
            for fl in ("v", "r"):
                for fr in ("v", "r"):
                    if (fl, fr) == (bl, br):
                        continue
                    lines.append("        { let l = %s; let r = %s; ::dx_support::take_log(); let o = %sl %s %sr; let lg = ::dx_support::take_log();"
                                 % (mkl, mkr, "&" if fl == "r" else "", s, "&" if fr == "r" else ""))
                    unch = " && ".join((["l.0 == \"L\""] if fl == "r" else []) + (["r.0 == \"R\""] if fr == "r" else [])) or "true"
                    emit("implbin", (fl, fr), "o.0", unch, "result")
                    lines.append("        }")
        if want_assign:
            forms = ("v", "r") if want_bin else (br,)
            for fr in forms:
                lines.append("        { let mut l = %s; let r = %s; ::dx_support::take_log(); l %s= %sr; let lg = ::dx_support::take_log();"
                             % (mkl, mkr, s, "&" if fr == "r" else ""))
                unch = "r.0 == \"R\"" if fr == "r" else "true"
                emit("implassign", ("m", fr), "l.0", unch, "post")
                lines.append("        }")
    lines.append("        out\n    }\n}")
    desc = {"op": op, "base": {"l": bl, "r": br}, "rhs_self": rhs_self, "want_bin": want_bin, "want_assign": want_assign,
            "base_is_assign": base_is_assign}
    return "\n".join(lines), {"attr": attr, "item": impl}, desc
