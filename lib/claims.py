"""What MANIFEST.json claims, per property."""
MC = "model_checking"
CLAIMS = {
    "C05": dict(level=MC, design_ref="DESIGN.md 6 C05",
                technique="TLA+ pipeline model (MC_Cmp) exhaustively model-checked by TLC; its configurations replayed into the real expander in-process; TLC trace validation (Trace_Cmp) of per-trait accept/reject",
                text="TLC proves on the whole 3136 x trait-set matrix that the mechanism (chain walk, bad_attr, is_ignore, is_reverse) equals the documented rule and characterises the documented error cases; every configuration is then expanded by the real code (3 shapes, both entry points, plus misplaced arguments) and TLC judges each observed per-trait class. Exhaustive over the stated finite matrix.",
                note="trusted: TLC, the DxCmp transcription of the documentation, syn-based projection of the expansion into per-trait classes (positional), the 8-line verif_hooks wrapper"),
    "C01": dict(level=MC, design_ref="DESIGN.md 6 C01",
                technique="TLA+ semantics of ==/partial_cmp/cmp (DxCmp) judged by TLC trace validation against full result tables of programs compiled with the genuine proc-macro",
                text="every accepted configuration of the matrix (distinct key/by function per attribute so precedence is observable) is compiled with the real proc-macro and run over the full cartesian product of field values; TLC validates every cell of every ==, !=, partial_cmp, <,<=,>,>= and cmp table against the specification. Exhaustive over the matrix, bounded value domains.",
                note="trusted: TLC, rustc, dx-support field/key types, de-duplication of configurations with token-identical impls"),
    "C02": dict(level=MC, design_ref="DESIGN.md 6 C02",
                technique="TLC invariant CoherentInv on the TLA+ design (all pairs and triples), plus model-free law evaluation on the compiled real impls, judged by trace validation",
                text="design level: TLC checks all coherence laws for every accepted configuration of the matrix. implementation level: every configuration the REAL expander accepts is compiled and the laws are evaluated directly on the real impls (no model involved); TLC requires them to hold and validates the tables under one consistent key.",
                note="trusted: TLC, rustc, the law evaluators in dx-support"),
    "C06": dict(level=MC, design_ref="DESIGN.md 6 C06",
                technique="TLA+ ItemHashFeed judged by TLC trace validation against the byte sequence a recording Hasher receives from compiled programs",
                text="for every accepted configuration with Hash derived, the exact sequence of bytes written to a recording Hasher is compared by TLC with the specified feed for all values.",
                note="trusted: TLC, rustc, the recording Hasher; write_* call boundaries are flattened to bytes"),
}
NOT_APPLICABLE = {}
